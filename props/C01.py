"""C01 - luamin keeps the program: same tokens modulo renaming, nothing glued.

Window lemma: the token minifier is a fold over the token list; re-lexing
its output by longest match returns the input tokens iff at every boundary
between two consecutive output chunks the reference lexer, started there,
returns exactly the next chunk.  The lemma is decided for every ordered pair
of adjacent token classes that can occur in a program of the dialect, every
gap between them, symbolic spellings, and every writer configuration."""
from symx.api import Harness
from symx import hx
from symx.hx import And, Or, Not
from ref import lualex as R
from ref import luaparse as RP
from props import symtok as ST
from pico8.lua import lua, lexer

ENCODED = ['pico8.lua.lua.LuaMinifyTokenWriter.__init__/to_lines',
           'pico8.lua.lua.MinifyNameFactory.get_short_name',
           'pico8.lua.lexer.TokString.code', 'pico8.lua.lua.Lua.'
           'get_token_count']
ASSUMPTIONS = [
    'window lemma (hand): maximal-munch re-lexing of a concatenation equals '
    'the chunk sequence iff every chunk boundary is a token boundary; the '
    'look-ahead that can change this is bounded by the next chunk',
    'dialect filter: a window is claimed only if the two tokens can be '
    'adjacent in a program accepted by ref/luaparse.py (embedding templates)',
    'renaming itself is C02; here names are spelled as the factory spells '
    'them (default mode) or kept (keep-all / keep-file)',
]
OUTSIDE = ['spellings longer than the bound', 'windows of three tokens '
           'whose fusion needs all three ([ = [)']

KW = ST.KEYWORDS
SYM = ST.SYMBOLS
CLASSES = ['name', 'keyword', 'number', 'qstring', 'lstring', 'label',
           'symbol']
GAPS = ['none', 'space', 'newline', 'comment', 'blockcomment', 'spaces-nl']

PRE = ['', 'x=', 'x=a', 'f(', 'f(a', 't={', 't={a', 'if a', 'if ', 'do ',
       'x=t[', 'local ', 'return ', 'x=a.', 'goto ', 'for i=1,2 ', 'while ',
       'x=function(', 'function f(a', 'x=a;', 'x=1 ', 'f() ', 'a', 'a.b',
       'x=-', 'x=a and', 'x=a,', 'x=a[', 'for ', 'x=a:', 'function ',
       'x=f', 'x=(', 'if (a) ', 'x=a..', 'repeat ', 'x={[', 'for i ',
       'local function ', 'x=f(a)', 'x=a[1]', 'x="s"', 'x=#']
POST = ['', 'b', ' b', '=1', ')', 'b)', '}', 'b}', ' then end', ' end', ']',
        '1', '(b)', ' y=2', ' do end', ') end', '.b=1', '()', ' b=1', ',b',
        ']=1', ' in p do end', '() end', '(b) end', '=1,2 do end',
        ' until a', 'a do end', ' a end', ']=1}', ') y=1 end', '"s"', '{}',
        ':m()', '[1]', ' and b', '..b']


def _native_parser():
    """An un-instrumented copy of ref/luaparse.py (the embedding test works
    on concrete token kinds only, so it can run at native speed)."""
    import importlib.util
    import os
    import sys
    name = 'ref_luaparse_native'
    if name in sys.modules:
        return sys.modules[name]
    path = os.path.join(os.path.dirname(os.path.dirname(
        os.path.abspath(__file__))), 'ref', 'luaparse.py')
    spec = importlib.util.spec_from_file_location(name, path)
    mod = importlib.util.module_from_spec(spec)
    sys.modules[name] = mod
    with open(path) as fh:
        code = compile(fh.read(), path, 'exec')
    exec(code, mod.__dict__)
    return mod


class KV:
    """Concrete token view: kind name only."""
    __slots__ = ('kind', 'index')

    def __init__(self, kind, index):
        self.kind = kind
        self.index = index

    def is_(self, kinds):
        return self.kind in kinds


_CTX = {}
_EMB = {}


def ctx_kinds(text):
    if text not in _CTX:
        lx = lexer.Lexer(version=8)
        lx.process_lines([text.encode('latin-1')])
        _CTX[text] = [ST.kind_name(t) for t in lx.tokens]
    return _CTX[text]


def embeddable(t1, gap_toks, t2):
    """Can t1 t2 be adjacent in a program of the dialect?  Only the token
    kinds matter (they are concrete on each path)."""
    mid = [ST.kind_name(t) for t in [t1] + list(gap_toks) + [t2]]
    key = tuple(mid)
    if key in _EMB:
        return _EMB[key]
    NP = _native_parser()
    res = None
    for pre in PRE:
        pk = ctx_kinds(pre)
        i2 = len(pk) + len(mid) - 1          # index of t2
        # prune: if the parser gives up before it has consumed t2, no suffix
        # can help (the reference parser never backtracks)
        vs = [KV(k, i) for i, k in enumerate(pk + mid)]
        pr = NP.P(vs)
        try:
            pr.chunk()
            if pr.peek() is None:
                res = pre + '<>'
                break
        except (NP.Reject, NP.Abstain):
            pass
        if pr.high < i2:
            continue
        for post in POST:
            kinds = pk + mid + ctx_kinds(post)
            vs = [KV(k, i) for i, k in enumerate(kinds)]
            try:
                NP.parse(vs)
                res = pre + '<>' + post
                break
            except (NP.Reject, NP.Abstain):
                pass
        if res is not None:
            break
    _EMB[key] = res
    return res


def sym_token(x, tag, cls, L, cfg):
    """A token of class cls with a symbolic spelling (where the class has
    more than finitely many); returns (token, kind, expected text or None,
    decoded value or None)."""
    if cls == 'keyword':
        kw = x.choice(tag + '.kw', KW).encode()
        return lexer.TokKeyword(kw), 'keyword'
    if cls == 'symbol':
        s = x.choice(tag + '.sym', SYM).encode()
        return lexer.TokSymbol(s), 'symbol'
    if cls == 'label':
        return lexer.TokLabel(b'::' + x.bytes(tag, 1, 97, 122) + b'::'), \
            'label'
    if cls == 'qstring':
        q = x.choice(tag + '.q', [b'"', b"'"])
        return lexer.TokString(x.bytes(tag, 1), quote=q), 'string'
    if cls == 'lstring':
        body = x.bytes(tag, 1)
        x.assume(body[0] != 93)      # '[[]]]' is not what the lexer produces
        level = x.choice(tag + '.level', [0, 1, 2])
        return lexer.TokString(body, multiline_quote=b'=' * level), 'string'
    if cls == 'name':
        n = x.choice(tag + '.len', list(range(1, L + 1)))
        sp = x.bytes(tag, n)
        x.assume(R.is_name_start(sp[0]))
        for k in range(1, n):
            x.assume(R.is_name_char(sp[k]))
        for kw in R.KEYWORDS:
            if len(kw) == n:
                x.assume(Not(sp == kw))
        if cfg == 'default':
            # spelled by the factory anyway; keep one representative
            x.assume(And(*[And(c >= 97, c <= 122) for c in sp]))
        return lexer.TokName(sp), 'name'
    # numbers: the literal shapes of the dialect up to L characters
    shapes = [s for s in NUMBER_SHAPES if len(s) <= L]
    shape = x.choice(tag + '.shape', shapes)
    sp = x.bytes(tag, len(shape))
    for k, ch in enumerate(shape):
        c = sp[k]
        if ch == 'D':
            x.assume(R.is_digit(c))
        elif ch == 'H':
            x.assume(R.is_hexdigit(c))
        elif ch == 'B':
            x.assume(R.is_bindigit(c))
        elif ch == 'x':
            x.assume(Or(c == 120, c == 88))
        elif ch == 'b':
            x.assume(Or(c == 98, c == 66))
        elif ch == 'e':
            x.assume(Or(c == 101, c == 69))
        else:
            x.assume(c == ord(ch))
    # cross-check the shape against the reference lexer
    v = R.step(('normal',), sp)
    if not (v[0] == 'tok' and v[1] == 'number' and v[2] == len(shape)):
        return None, None
    return lexer.TokNumber(sp), 'number'


NUMBER_SHAPES = ['D', 'DD', 'D.', '.D', 'DDD', 'DD.', 'D.D', '.DD', '0xH',
                 '0bB', 'DeD', '0xHH', '0x.H', '0b.B', 'D.DD', 'DeDD',
                 'De-D', '.DeD', 'D.eD']


def gap_tokens(x, gap):
    if gap == 'none':
        return [], False
    if gap == 'space':
        return [lexer.TokSpace(b' ')], False
    if gap == 'newline':
        return [lexer.TokNewline(b'\n')], True
    if gap == 'comment':
        return [lexer.TokSpace(b' '), lexer.TokComment(b'--c'),
                lexer.TokNewline(b'\n')], True
    if gap == 'blockcomment':
        return [lexer.TokComment(b'--[[c]]')], False
    if gap == 'spaces-nl':
        return [lexer.TokSpace(b'  '), lexer.TokNewline(b'\r\n'),
                lexer.TokSpace(b'\t'), lexer.TokNewline(b'\n')], True
    raise ValueError(gap)


def relex(x, out):
    """Tokens of `out` by the reference lexer: list of (kind, text, value);
    None when it rejects or abstains."""
    toks = []
    pos = 0
    n = len(out)
    mode = ('normal',)
    guard = 0
    start = 0
    while pos < n:
        guard += 1
        if guard > 40:
            return None
        v = R.step(mode, out[pos:], True)
        verdict, kind, length, value, mode2 = v
        if verdict != 'tok':
            return None
        if kind in ('open-quote', 'open-long', 'open-comment'):
            start = pos
        elif mode[0] != 'normal':
            if kind == 'string':
                toks.append(('string', out[start:pos + length], value))
            # a block comment that closed: dropped (trivia)
        elif kind in ('space', 'comment'):
            pass
        else:
            toks.append((kind, out[pos:pos + length], None))
        pos += length
        mode = mode2
    if mode[0] != 'normal':
        return None
    return toks


def window(x, p):
    cfg = p['cfg']
    c1, c2 = p['c1'], p['c2']
    L = p['L']
    gap = x.choice('gap', p.get('gaps', GAPS))
    t1, k1 = sym_token(x, 'a', c1, L, cfg)
    t2, k2 = sym_token(x, 'b', c2, L, cfg)
    if t1 is None or t2 is None:
        x.tag('spelling outside the class')
        return
    gtoks, has_nl = gap_tokens(x, gap)
    # word-like neighbours without any separator are not two tokens at all
    emb = embeddable(t1, gtoks, t2)
    if emb is None:
        x.tag('not adjacent in any dialect program')
        return
    x.tag('claimed %s/%s' % (c1, c2))
    args = {}
    if cfg == 'keep_all':
        args = {'keep_all_names': True}
    toks = [t1] + gtoks + [t2]
    w = lua.LuaMinifyTokenWriter(tokens=toks, root=None, args=args)
    if x.symbolic:
        # same factory, but a map that compares symbolic keys by equality
        # (a real dict would have to hash them)
        from symx import rt as _rt
        w._name_factory._name_map = _rt.SDict()
    # arbitrary writer state before the window: the line-end flag matters
    # exactly when the gap carries a line end
    w._last_was_name_keyword_number = p.get('last_word', False)
    if has_nl:
        w._last_was_newline = x.choice('state.last_nl', [False, True])
    else:
        w._last_was_newline = p.get('last_nl', False)
    try:
        out = b''.join(w.to_lines())
    except Exception as e:
        x.check('minifier does not raise', False, info=repr(e))
        return
    x.out('out', out)
    sig = known(t1, k1, t2, k2, gap)
    got = relex(x, out)
    x.check('output is lexable without ambiguity (no token pair fused into '
            'something malformed)', got is not None, known=sig,
            info='context ' + emb)
    if got is None:
        return
    exp = []
    for t, k in ((t1, k1), (t2, k2)):
        if k == 'name':
            text = w._name_factory.get_short_name(t._data)
            exp.append(('name', text, None))
        elif k == 'label':
            # labels are renamed through the same map as names (C02)
            nm = t._data[2:len(t._data) - 2]
            exp.append(('label', b'::' + w._name_factory.get_short_name(nm) +
                        b'::', None))
        elif k == 'string':
            exp.append(('string', None, t._data))
        else:
            exp.append((k, t._data, None))
    if has_nl:
        exp.insert(1, ('newline', b'\n', None))
    x.check('same number of tokens (none fused, split or turned into a '
            'comment)', len(got) == len(exp), known=sig,
            info='context ' + emb)
    if len(got) != len(exp):
        return
    for g, e in zip(got, exp):
        x.check('token kind kept', g[0] == e[0], known=sig,
                info='%s vs %s in %s' % (g[0], e[0], emb))
        if g[0] != e[0]:
            return
        if e[0] == 'string':
            x.check('string literal denotes the same bytes',
                    bytes(g[2]) == e[2], known=sig)
        else:
            x.check('token spelling kept (names as renamed)', g[1] == e[1],
                    known=sig)
    # token count reported by stats is computed from the token list: the
    # same tokens give the same count (Lua.get_token_count is a per-token sum)


def known(t1, k1, t2, k2, gap):
    return {}


Q = {'_budget': 900}


def pairs(cfgs, L, gaps=None):
    out = []
    for cfg in cfgs:
        for c1 in CLASSES:
            for c2 in CLASSES:
                d = dict(Q, cfg=cfg, c1=c1, c2=c2, L=L)
                if gaps:
                    d['gaps'] = gaps
                out.append(d)
    return out


HARNESSES = [
    Harness('window', window, quick=pairs(
        ['keep_all'], 2, ['none', 'space', 'newline', 'comment']) + [
        dict(Q, cfg='keep_all', c1='number', c2='symbol', L=4),
        dict(Q, cfg='keep_all', c1='symbol', c2='number', L=4),
        dict(Q, cfg='default', c1='name', c2='name', L=2),
        dict(Q, cfg='default', c1='number', c2='name', L=2)],
            thorough=pairs(['keep_all', 'default'], 3) +
            [dict(Q, cfg='default', c1=c1, c2=c2, L=2, last_word=True,
                  last_nl=True) for c1 in ('name', 'number', 'symbol')
             for c2 in ('name', 'symbol')]),
]


# --- CLI wiring --------------------------------------------------------------------
def cli(x, p):
    """tool.luamin / build --lua-minify hand the token minifier and the
    name options to the cart writer."""
    import argparse
    import builtins
    from pico8 import tool
    from pico8.game import file as gfile
    from pico8.game.game import Game
    src = (b'-- t\nfoo=bar - -baz\nif (foo) qux=1 ..foo\nt[ [[k]] ]=foo\n'
           b'span=1..5 ..0x1f..foo\n')
    g = Game.make_empty_game(filename='x.p8')
    g.lua = lua.Lua.from_lines([src], version=8)
    keep_all = x.bool('keep_all')
    keep_file = x.choice('keep_file', [None, '/w/keep.txt'])
    via = x.choice('via', ['luamin', 'build'])
    captured = []
    games = []

    def fake_to_file(game, **kw):
        games.append(game)
        captured.append(kw)

    def fake_open(name, mode='r', *a, **k):
        if name == '/w/main.lua':
            return hx.MemStream(src)
        return hx.MemStream(b'bar\n# c\n\nqux \n')
    hx.patch(x, gfile, 'to_file', fake_to_file)
    hx.patch(x, builtins, 'open', fake_open)
    if via == 'luamin':
        args = argparse.Namespace(keep_all_names=keep_all,
                                  keep_names_from_file=keep_file)
        tool.luamin(g, 'out.p8', args=args)
    else:
        import os
        from pico8.build import build
        hx.patch(x, os.path, 'exists', lambda fn: fn == '/w/main.lua')
        args = argparse.Namespace(
            filename='/w/out.p8', lua='/w/main.lua', lua_minify=True,
            lua_format=False, keep_all_names=keep_all,
            keep_names_from_file=keep_file, lua_path=None,
            optimize_tokens=False)
        rc = build.do_build(args)
        x.check('build succeeds', rc == 0)
        if games:
            g = games[0]
            x.check('build hands over the main program',
                    b''.join(g.lua.to_lines()) == src)
    x.check('luamin writes the cart once', len(captured) == 1)
    if len(captured) != 1:
        return
    kw = captured[0]
    x.check('luamin is wired to the token minifier',
            kw.get('lua_writer_cls') is lua.LuaMinifyTokenWriter)
    out = b''.join(g.lua.to_lines(writer_cls=kw.get('lua_writer_cls'),
                                  writer_args=kw.get('lua_writer_args')))
    x.out('out', out)
    compare_cli_tokens(x, g.lua.tokens, out, keep_all, keep_file is not None)


def compare_cli_tokens(x, in_tokens, out, keep_all, keep_file):
    lx = lexer.Lexer(version=8)
    lx.process_lines([out])
    sig_in = [t for t in in_tokens if not isinstance(
        t, (lexer.TokSpace, lexer.TokNewline, lexer.TokComment))]
    sig_out = [t for t in lx.tokens if not isinstance(
        t, (lexer.TokSpace, lexer.TokNewline, lexer.TokComment))]
    x.check('same number of code tokens', len(sig_in) == len(sig_out))
    if len(sig_in) != len(sig_out):
        return
    mapping = {}
    for a, b in zip(sig_in, sig_out):
        x.check('token kind kept', type(a) is type(b))
        if isinstance(a, lexer.TokName):
            kept = keep_all or a.code in (b't', b'print', b'?') or (
                keep_file and a.code in (b'bar', b'qux'))
            if kept:
                x.check('names that must be kept are kept', b.code == a.code)
            mapping.setdefault(a.code, b.code)
            x.check('one input name, one output name',
                    mapping[a.code] == b.code)
        elif not isinstance(a, lexer.TokString):
            x.check('spelling kept', a.code == b.code)
    x.check('renaming is injective',
            len(set(mapping.values())) == len(mapping))
    l1 = lua.Lua(version=8)
    l1._lexer._tokens = list(in_tokens)
    l2 = lua.Lua(version=8)
    l2._lexer._tokens = list(lx.tokens)
    x.check('token count reported by stats is unchanged',
            l2.get_token_count() == l1.get_token_count())


def cli_main(x, p):
    """`p8tool luamin ...` and `p8tool build --lua-minify ...` end to end
    through tool.main: argparse wiring, cart reader, minifier, cart writer,
    then `p8tool stats` on the input and the output."""
    from props import clikit
    code = (b'-- title\n-- author\nfoo=bar - -baz\nif (foo) qux=1 ..foo\n'
            b't[ [[k]] ]=foo\n?foo,bar\nprint(foo) -- c\n')
    via = x.choice('via', ['luamin', 'build'])
    keep_all = x.bool('keep_all')
    keep_file = x.bool('keep_file')
    fs = clikit.MemFS(x, {'/w/in.p8': clikit.p8_text(code),
                          '/w/main.lua': code,
                          '/w/keep.txt': b'bar\n# c\n\nqux \n'})
    opts = []
    if keep_all:
        opts.append('--keep-all-names')
    if keep_file:
        opts += ['--keep-names-from-file', '/w/keep.txt']
    if via == 'luamin':
        argv = ['luamin'] + opts + ['/w/in.p8']
        out_name = '/w/in_fmt.p8'
    else:
        argv = ['build', '--lua', '/w/main.lua', '--lua-minify'] + opts + \
            ['/w/out.p8']
        out_name = '/w/out.p8'
    rc, exc = clikit.run_main(argv)
    x.check('the command succeeds', And(exc is None, rc == 0),
            info=repr((rc, exc))[:160])
    if exc is not None or rc != 0:
        return
    x.check('exactly the output cart is written',
            clikit.only_changed(fs, out_name))
    if out_name not in fs.files:
        return
    got = clikit.lua_of(fs.files[out_name])
    x.out('code', got)
    lx = lexer.Lexer(version=8)
    lx.process_lines([code])
    compare_cli_tokens(x, lx.tokens, got, keep_all, keep_file)
    x.check('title and byline comments stay on top',
            got.startswith(b'-- title\n-- author\n'))
    # stats on both carts
    del fs.messages[:]
    rc1, e1 = clikit.run_main(['stats', '/w/in.p8'])
    m_in = list(fs.messages)
    del fs.messages[:]
    rc2, e2 = clikit.run_main(['stats', out_name])
    m_out = list(fs.messages)
    x.check('stats runs on both carts',
            And(rc1 == 0, rc2 == 0, e1 is None, e2 is None))

    def field(msgs, name):
        for m in msgs:
            for line in m.split('\n'):
                if line.startswith(name):
                    return line
        return None
    x.check('stats reports the same token count',
            And(field(m_in, '- tokens:') is not None,
                field(m_in, '- tokens:') == field(m_out, '- tokens:')))
    x.check('stats reports the same title and byline',
            And(m_in[0].split(' (')[0] == m_out[0].split(' (')[0] == 'title',
                m_in[1] == m_out[1] == 'author\n'))


HARNESSES.append(Harness('cli', cli, quick=[Q]))
def png_args(x, p):
    """The .p8.png writer hands the minifier and its name options to the Lua
    writer just like the .p8 writer (luamin of a .p8.png cart, build to a
    .p8.png): write with pypng stubbed, read the code back, compare tokens."""
    import builtins
    import png
    from props.C04 import FakeReader, FakeWriter, FakeFile, W_, H_
    from pico8.game.game import Game
    from pico8.game.formatter.p8png import P8PNGFormatter
    src = (b'-- t\nfoo=bar - -baz\nif (foo) qux=1 ..foo\nt[ [[k]] ]=foo\n'
           b'?foo,bar\n')
    g = Game.make_empty_game(filename='x.p8.png')
    g.lua = lua.Lua.from_lines([src], version=8)
    keep_all = x.bool('keep_all')
    keep_file = x.bool('keep_file')
    rows = [bytearray((3 * r + c) % 256 for c in range(W_ * 4))
            for r in range(H_)]

    def fake_open(name, mode='r', *a, **k):
        if name == '/w/keep.txt':
            return hx.MemStream(b'bar\nqux\n')
        return FakeFile(name)
    hx.patch(x, builtins, 'open', fake_open)
    hx.patch(x, png, 'Reader', lambda file=None, **kw: FakeReader(rows))
    hx.patch(x, png, 'Writer', FakeWriter)
    out = hx.MemStream()
    args = {'keep_all_names': keep_all,
            'keep_names_from_file': '/w/keep.txt' if keep_file else None}
    try:
        P8PNGFormatter.to_file(g, out, lua_writer_cls=lua.LuaMinifyTokenWriter,
                               lua_writer_args=args, filename='x.p8.png',
                               label_fname='label.png')
    except Exception as e:
        x.check('the .p8.png writer accepts the minifier', False,
                info=repr(e)[:120])
        return
    new_rows = FakeWriter.captured
    hx.patch(x, png, 'Reader', lambda file=None, **kw: FakeReader(new_rows))
    g2 = P8PNGFormatter.from_file(hx.MemStream(b'PNG'), filename='x.p8.png')
    code = b''.join(g2.lua.to_lines())
    x.out('code', code)
    compare_cli_tokens(x, g.lua.tokens, code, keep_all, keep_file)


def string_value(x, p):
    """String literals keep their decoded value through the minifier (the
    window lemma uses one-byte bodies; here the body has 2-3 symbolic bytes so
    that escapes followed by digits, quotes and backslashes are reached)."""
    n = p['n']
    q = x.choice('q', [34, 39])
    v = x.bytes('v', n)
    toks = [lexer.TokName(b'print'), lexer.TokSpace(b' '),
            lexer.TokString(v, 0, 0, quote=bytes([q])),
            lexer.TokNewline(b'\n'), lexer.TokName(b'print'),
            lexer.TokSymbol(b'('), lexer.TokSymbol(b')')]
    w = lua.LuaMinifyTokenWriter(tokens=toks, root=None, args={})
    try:
        out = b''.join(w.to_lines())
    except Exception as e:
        x.check('the minifier does not raise', False, info=repr(e)[:100])
        return
    x.out('out', out)
    x.check('output starts with the call name and the opening quote',
            And(len(out) > 6, out[:5] == b'print', out[5] == q))
    if not (len(out) > 6 and out[:5] == b'print' and out[5] == q):
        return
    verdict, kind, length, value, mode2 = R.step(('string', q), out[6:])
    x.tag(verdict)
    x.check('the written literal is well formed', verdict == 'tok')
    if verdict != 'tok':
        return
    x.check('string literal keeps its decoded value', bytes(value) == v)
    x.check('what follows the literal is the rest of the program',
            out[6 + length:] == b'\nprint()')


HARNESSES.append(Harness('string_value', string_value,
                         quick=[dict(Q, n=2)],
                         thorough=[dict(Q, n=2), dict(Q, n=3, _budget=2400)]))
HARNESSES.append(Harness('cli_main', cli_main, quick=[Q]))
HARNESSES.append(Harness('png_args', png_args, quick=[Q]))
# what ran before on the same Lua object (shared with C06): an abandoned
# iteration, another writer ... must not change what the minifier writes
from props import C06 as _C06
HARNESSES.append(Harness('after_other_writer', _C06.after_other_writer,
                         quick=[{'_budget': 300}]))
