"""C02 - luamin renaming is a consistent injection that respects reserved
names."""
from symx.api import Harness
from symx import hx, rt
from symx.hx import And, Or, Not, Ite
from pico8.lua import lua
from pico8.lua import lexer

F = lua.MinifyNameFactory

ENCODED = ['pico8.lua.lua.MinifyNameFactory._name_for_id',
           'pico8.lua.lua.MinifyNameFactory.get_short_name',
           'pico8.lua.lua.MinifyNameFactory.PRESERVED_NAMES (live set)',
           'pico8.lua.lua.LuaMinifyTokenWriter.to_lines (label branch)']
ASSUMPTIONS = [
    'invariant I of the factory state (the induction hypothesis): map keys '
    'pairwise distinct, not preserved and not kept; map values are '
    '_name_for_id(k) for pairwise distinct k < _next_name_id, not preserved '
    'and not kept',
    'populations larger than the symbolic entries rely on I being pairwise '
    '(hand argument); int(id/26) == id//26 for 0 <= id < 2^31 in IEEE double '
    '(decided by z3 as a QF_BVFP query in the thorough tier: ref/fplemma.py)',
]
PRECHECKS_THOROUGH = ['ref.fplemma']
OUTSIDE = ['ids >= the stated bound; names longer than the stated bound']


def is_ident(name):
    n = len(name)
    if n == 0:
        return False
    return And(*[And(name[k] >= 97, name[k] <= 122) for k in range(n)])


def name_ids(x, p):
    """_name_for_id is injective and yields [a-z]+ names."""
    B = p['B']
    i = x.int('i', 0, B - 1)
    j = x.int('j', 0, B - 1)
    a = F._name_for_id(i)
    b = F._name_for_id(j)
    x.out('a', a)
    x.tag('len %d/%d' % (len(a), len(b)))
    x.check('generated name is a lower-case identifier', is_ident(a))
    x.assume(i != j)
    if len(a) == len(b):
        x.check('different ids give different names', Not(a == b))


def sym_name(x, tag, maxlen):
    n = x.choice(tag + '.len', list(range(1, maxlen + 1)))
    return x.bytes(tag, n, 48, 255)


def step(x, p):
    """One get_short_name call from an arbitrary factory state satisfying I."""
    nent = p['entries']
    f = F.__new__(F)
    mode = p['mode']
    f._keep_all_names = (mode == 'keep_all')
    keep = None
    if mode == 'keep_file':
        keep = [sym_name(x, 'keep%d' % k, p['L']) for k in range(p['nkeep'])]
    f._names_to_keep = keep
    nxt = x.int('next', nent, p['B'])
    f._next_name_id = nxt
    pairs = []
    ids = []
    for k in range(nent):
        key = sym_name(x, 'key%d' % k, p['L'])
        kid = x.int('id%d' % k, 0, p['B'])
        x.assume(kid < nxt)
        for other in ids:
            x.assume(kid != other)
        ids.append(kid)
        val = F._name_for_id(kid)
        # invariant I
        x.assume(Not(rt.contains(F.PRESERVED_NAMES, key)))
        x.assume(Not(rt.contains(F.PRESERVED_NAMES, val)))
        if keep is not None:
            x.assume(Not(rt.contains(keep, key)))
            x.assume(Not(rt.contains(keep, val)))
        for k2, _ in pairs:
            x.assume(Not(k2 == key))
        pairs.append((key, val))
    f._name_map = rt.SDict(pairs)
    name = sym_name(x, 'name', p['L'])
    sig = {}
    try:
        out = f.get_short_name(name)
    except Exception as e:
        x.check('get_short_name does not raise', False, info=repr(e))
        return
    x.out('out', out)
    preserved = rt.contains(F.PRESERVED_NAMES, name)
    kept = rt.contains(keep, name) if keep is not None else False
    unchanged = Or(preserved, kept, f._keep_all_names)
    if unchanged:
        x.tag('unchanged')
        x.check('reserved / kept names are returned exactly as written',
                out == name)
        x.check('no map entry is created for them',
                len(f._name_map) == nent)
        return
    x.tag('renamed')
    x.check('result is stable on a second call',
            f.get_short_name(name) == out)
    x.check('generated name is a lower-case identifier', is_ident(out))
    x.check('generated name is not a keyword or PICO-8 reserved name',
            Not(rt.contains(F.PRESERVED_NAMES, out)))
    if keep is not None:
        x.check('generated name is not a name kept by --keep-names-from-file'
                ' (a kept identifier would collide with it)',
                Not(rt.contains(keep, out)))
    for key, val in pairs:
        x.check('consistent and injective: equal output iff equal input',
                (out == val) == (name == key))
    # invariant re-established for the next step
    x.check('counter stays above every id in use', f._next_name_id >= nxt)
    new_entry = len(f._name_map) == nent + 1
    x.check('map grows by at most the new name',
            Or(new_entry, len(f._name_map) == nent))


def fresh(x, p):
    """The state the constructor sets up satisfies the invariant the step
    lemma starts from (empty map, counter 0, no sharing between factories):
    a second factory made in the same process (p8tool luamin a.p8 b.p8) is
    not influenced by the first."""
    keep_all = x.bool('keep_all')
    # concrete names (the constructor's own dict is used, un-modelled, so
    # that sharing between instances stays visible)
    names = [b'foo', b'bar', b'a', b'b', b'print']
    n1 = x.choice('n1', names)
    n2 = x.choice('n2', names)
    f1 = F(keep_all_names=keep_all)
    x.check('a new factory starts with an empty map and counter 0',
            And(len(f1._name_map) == 0, f1._next_name_id == 0))
    a1 = f1.get_short_name(n1)
    a2 = f1.get_short_name(n2)
    f2 = F(keep_all_names=keep_all)
    x.check('a second factory starts empty as well',
            And(len(f2._name_map) == 0, f2._next_name_id == 0))
    b2 = f2.get_short_name(n2)
    b1 = f2.get_short_name(n1)
    x.out('names', [a1, a2, b2, b1])
    x.check('two input names share an output name only if they are equal '
            '(first cart)', (a1 == a2) == (n1 == n2))
    x.check('two input names share an output name only if they are equal '
            '(second cart, names met in the other order)',
            (b1 == b2) == (n1 == n2))


def sdict_factories(x, w):
    """In symbolic mode give every name factory of the writer a map that
    compares symbolic keys by equality (a real dict would hash them)."""
    if x.symbolic:
        for attr, val in list(vars(w).items()):
            if isinstance(val, lua.MinifyNameFactory):
                val._name_map = rt.SDict()


def label(x, p):
    """Labels and gotos are renamed through the same map as names."""
    nm = x.bytes('nm', p['L'], 97, 122)
    other = x.bytes('other', 1, 97, 122)
    x.assume(Not(other == nm[:1]) if p['L'] == 1 else True)
    toks = [lexer.TokName(other), lexer.TokSymbol(b'='),
            lexer.TokNumber(b'1'), lexer.TokNewline(b'\n'),
            lexer.TokLabel(b'::' + nm + b'::'), lexer.TokNewline(b'\n'),
            lexer.TokKeyword(b'goto'), lexer.TokSpace(b' '),
            lexer.TokName(nm), lexer.TokNewline(b'\n')]
    w = lua.LuaMinifyTokenWriter(tokens=toks, root=None, args={})
    sdict_factories(x, w)
    out = b''.join(w.to_lines())
    x.out('out', out)
    short = w._name_factory.get_short_name(nm)
    first = w._name_factory.get_short_name(other)
    x.check('label and goto carry the same renamed identifier',
            out == first + b'=1\n::' + short + b'::\ngoto ' + short + b'\n')
    x.check('two different identifiers stay different',
            Or(other == nm, Not(first == short)))


def label_src(x, p):
    """From source text: a goto label and the gotos that name it (the label
    written with or without blanks inside its colons, where the lexer takes
    that) come out of luamin with one and the same identifier."""
    from props.C01 import relex
    nm = x.bytes('nm', p['L'], 97, 122)
    other = b'q' if p.get('other') else x.bytes('other', 1, 97, 122)
    sp1 = x.choice('sp1', [b'', b' ', b'\t', b'  '])
    sp2 = x.choice('sp2', [b'', b' ', b'\t'])
    src = (other + b'=1\n::' + sp1 + nm + sp2 + b'::\n' + other + b'=2\ngoto ' +
           nm + b'\n')
    try:
        prog = lua.Lua.from_lines([src], version=8)
    except Exception:
        x.tag('not accepted')     # no claim about programs picotool refuses
        return
    x.tag('accepted')
    try:
        w = lua.LuaMinifyTokenWriter(tokens=prog.tokens, root=prog.root,
                                     args={})
        sdict_factories(x, w)
        out = b''.join(w.to_lines())
    except Exception as e:
        x.check('luamin works on an accepted program', False, info=repr(e))
        return
    x.out('out', out)
    toks = relex(x, out)
    if toks is None:
        x.check('luamin output lexes', False)
        return
    labels = [t[1] for t in toks if t[0] == 'label']
    gotos = [toks[k + 1][1] for k in range(len(toks) - 1)
             if toks[k][0] == 'keyword' and toks[k][1] == b'goto']
    x.check('one label, one goto in the output',
            And(len(labels) == 1, len(gotos) == 1))
    if len(labels) != 1 or len(gotos) != 1:
        return
    lab = labels[0]
    inner = lab[2:len(lab) - 2]
    x.check('label and goto carry the same identifier',
            inner.strip() == gotos[0])
    names = [t[1] for t in toks if t[0] == 'name']
    x.check('the other identifier is renamed consistently and apart from '
            'the label', And(names[0] == names[1], Or(
                other == nm, Not(names[0] == gotos[0]))))


def api_names(x, p):
    """PICO-8 API and callback names - taken from a list written from the
    manual (ref/p8api.py), not from picotool's own table - are reserved:
    luamin returns each unchanged and never hands one out."""
    from ref import p8api
    names = [n.encode() for n in p8api.API_NAMES]
    i = x.int('i', 0, len(names) - 1)
    name = names[x.conc(i)]                # one path per name
    f = F()
    x.check('an API name is in the reserved set',
            name in F.PRESERVED_NAMES, info=name.decode())
    x.check('an API name is returned unchanged', f.get_short_name(name) == name,
            info=name.decode())
    # a few ordinary identifiers first, then the API name again
    for k in range(3):
        f.get_short_name(b'var%d' % k)
    x.check('an API name stays unchanged later on',
            f.get_short_name(name) == name, info=name.decode())


def keepfile(x, p):
    """read_names_file: one name per line, blank lines and lines whose first
    non-blank character is '#' ignored, surrounding blanks stripped."""
    import builtins
    lead = x.bytes('lead', 1)
    trail = x.bytes('trail', 1)
    for c in (lead[0], trail[0]):
        x.assume(Or(c == 32, c == 9))
    nl = x.choice('nl', [b'\n', b'\r\n'])
    content = (lead + b'foo' + trail + nl + b'# bar' + nl + nl + b'  #baz' +
               nl + b'qux' + nl + b'a#b')
    hx.patch(x, builtins, 'open',
             lambda name, mode='r', *a, **k: hx.MemStream(content))
    try:
        names = F.read_names_file('/w/keep.txt')
    except Exception as e:
        x.check('keep file is read', False, info=repr(e))
        return
    got = sorted(bytes(x.conc(n)) for n in names)
    x.out('names', got)
    x.check('exactly the listed names, stripped, comments and blank lines '
            'ignored', got == [b'a#b', b'foo', b'qux'])
    # the user edits the keep file and minifies again in the same process
    content2 = b'foo' + nl + b'newname' + nl
    hx.patch(x, builtins, 'open',
             lambda name, mode='r', *a, **k: hx.MemStream(content2))
    try:
        names2 = F.read_names_file('/w/keep.txt')
    except Exception as e:
        x.check('keep file is read a second time', False, info=repr(e))
        return
    got2 = sorted(bytes(x.conc(n)) for n in names2)
    x.check('a second reading gives the names the file holds now',
            got2 == [b'foo', b'newname'])


Q = {'_budget': 300}
HARNESSES = [
    Harness('name_ids', name_ids, quick=[dict(Q, B=26 * 26 * 26)],
            thorough=[dict(Q, B=26 ** 4), dict(Q, B=26 ** 5, _budget=900)]),
    Harness('step', step,
            quick=[dict(Q, mode='default', entries=1, L=2, B=700),
                   dict(Q, mode='keep_file', entries=1, L=2, nkeep=1, B=700),
                   dict(Q, mode='keep_all', entries=1, L=2, B=700)],
            thorough=[dict(Q, mode='default', entries=2, L=3, B=20000,
                           _budget=1800),
                      dict(Q, mode='keep_file', entries=2, L=2, nkeep=2,
                           B=20000, _budget=1800),
                      dict(Q, mode='keep_all', entries=2, L=3, B=20000)]),
    Harness('api_names', api_names, quick=[Q]),
    Harness('label_src', label_src, quick=[dict(Q, L=1, other='q')],
            thorough=[dict(Q, L=1), dict(Q, L=2, _budget=1800)]),
    Harness('label', label, quick=[dict(Q, L=1), dict(Q, L=2)],
            thorough=[dict(Q, L=3)]),
    Harness('keepfile', keepfile, quick=[Q]),
    Harness('fresh', fresh, quick=[dict(Q, L=2)]),
]
