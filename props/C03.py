"""C03 - .p8 text cart write/read round trip preserves the whole cart."""
from symx.api import Harness
from symx import hx
from symx.hx import And, Or, Not, Ite
from pico8.game.game import Game
from pico8.game.formatter.p8 import P8Formatter
from pico8.gfx.gfx import Gfx
from pico8.lua.lua import Lua

ENCODED = ['pico8.game.formatter.p8.P8Formatter.to_file',
           'pico8.game.formatter.p8.P8Formatter.from_file',
           'pico8.game.formatter.p8._get_raw_data_from_p8_file',
           'pico8.util.BaseSection.from_lines/to_lines',
           'pico8.gfx.gfx.Gfx.from_lines/to_lines',
           'pico8.sfx.sfx.Sfx.from_lines/to_lines',
           'pico8.music.music.Music.from_lines/to_lines',
           'pico8.lua.lua.p8scii_to_unicode/unicode_to_p8scii',
           'pico8.lua.lexer.Lexer (on the code lines)']
ASSUMPTIONS = [
    'the output stream is an in-memory stream (hx.MemStream) with '
    'write/readline semantics of a binary file',
    'regions have their nominal sizes; symbolic bytes are placed in the '
    'listed rows, the remaining bytes are the empty-cart defaults (rows are '
    'encoded independently; the thorough tier moves the symbolic rows)',
    'Lua code: lines built around symbolic P8SCII bytes in a comment, a '
    'string and an identifier; no line reads as a __section__ header',
]
OUTSIDE = ['carts with missing or duplicated sections', 'Lua sources beyond '
           'the symbolic line shapes (covered per token by C06/C07)']

import os
LOGIC = os.environ.get('C03_LOGIC', 'QF_BV')
SECS = (('gfx', 64, 8192), ('gff', 128, 256), ('map', 128, 4096),
        ('sfx', 68, 4352), ('music', 4, 256))


def build_game(x, p, code_lines):
    g = Game.make_empty_game(filename='x.p8')
    g.lua = Lua.from_lines(code_lines, version=8)
    rows = p.get('rows', {})
    for name, width, size in SECS:
        sec = getattr(g, name)
        for r in rows.get(name, []):
            data = x.bytearray('%s%d' % (name, r), width)
            sec._data[r * width:(r + 1) * width] = data
    if p.get('label'):
        lab = Gfx.empty(version=8)
        for r in rows.get('label', [0]):
            lab._data[r * 64:(r + 1) * 64] = x.bytearray('label%d' % r, 64)
        g.label = lab
    else:
        g.label = None
    g.version = x.int('version', 0, p.get('maxver', 65535))
    return g


def regions(g):
    return dict((name, bytes(getattr(g, name)._data))
                for name, _, _ in SECS)


def same_bytes(x, what, got, exp):
    if len(got) != len(exp):
        x.check(what + ' (length)', False,
                info='%d vs %d' % (len(got), len(exp)))
        return
    x.check_all(what, hx.neq_pairs(got, exp))


def roundtrip(x, p):
    code = [b'x=1\n']
    kind = p.get('code')
    if kind:
        n = p['ncode']
        s = x.bytes('code', n)
        nl = b'\r\n' if p.get('crlf') else b'\n'
        if p.get('eol') == 'cr':
            nl = b'\r'      # old Mac line ends: the last line ends in a bare CR
        if kind == 'comment':
            code = [b'--' + s + nl, b'y=2' + (nl if p.get('final_nl', True)
                                              else b'')]
        elif kind == 'string':
            # contents of a quoted literal: any byte except the delimiters
            # the lexer itself interprets (quote, backslash, line breaks)
            for k in range(n):
                x.assume(And(s[k] != 34, s[k] != 92, s[k] != 10,
                             s[k] != 13))
            code = [b'x="' + s + b'"' + nl]
        elif kind == 'longline':
            # one very long line: a data string of 22 000 glyphs (66 000
            # bytes of UTF-8 in the file), then the symbolic bytes
            for k in range(n):
                x.assume(And(s[k] != 34, s[k] != 92, s[k] != 10,
                             s[k] != 13))
            code = [b'd="' + b'\x80' * 22000 + s + b'"' + nl, b'y=2' + nl]
        elif kind == 'glyphdunder':
            # a line inside a long string that is two underscores, glyph
            # characters, two underscores: not a section header (those are
            # ASCII words), so it is code like any other line
            for k in range(n):
                x.assume(s[k] >= 128)
            code = [b'x=[[' + nl, b'__' + s + b'__' + nl, b']]' + nl]
        elif kind == 'dunder':
            # a code line that begins like a section header but is not one
            t = x.bytes('tail', 1)
            for k in range(n):
                x.assume(Or(And(s[k] >= 97, s[k] <= 122), s[k] == 95,
                            And(s[k] >= 48, s[k] <= 57)))
            x.assume(Or(And(t[0] >= 97, t[0] <= 122), t[0] == 32))
            code = [b'__' + s + b'__' + t + b'=1' + nl, b'y=2' + nl]
        else:
            for k in range(n):
                x.assume(Or(s[k] >= 128, And(s[k] >= 97, s[k] <= 122)))
            code = [b'v' + s + b'=1' + nl]
    try:
        g = build_game(x, p, code)
    except Exception as e:
        x.tag('source not lexable/parsable')
        return
    before = regions(g)
    src = b''.join(g.lua.to_lines())
    out = hx.MemStream()
    try:
        P8Formatter.to_file(g, out, filename='x.p8')
    except Exception as e:
        x.check('to_file does not raise', False, info=repr(e))
        return
    data = out.getvalue()
    x.out('file-size', len(data))
    now = regions(g)
    for name, _, size in SECS:
        x.check('writing leaves the cart\'s ' + name + ' region as it was',
                len(now[name]) == size and now[name] == before[name])
    try:
        g2 = P8Formatter.from_file(hx.MemStream(data), filename='x.p8')
    except Exception as e:
        x.check('from_file reads what to_file wrote', False, info=repr(e))
        return
    x.check('version number preserved', g2.version == g.version)
    after = regions(g2)
    for name, _, _ in SECS:
        exp = before[name]
        if name == 'music':
            # the .p8 music row has no place for bit 7 of the 4th channel
            exp = bytes([(b & 0x7f) if k % 4 == 3 else b
                         for k, b in enumerate(exp)])
        same_bytes(x, name + ' region bytes preserved', after[name], exp)
    if g.label is None:
        x.check('no label stays no label', g2.label is None)
    else:
        x.check('label present after reload', g2.label is not None)
        if g2.label is not None:
            same_bytes(x, 'label image preserved', bytes(g2.label._data),
                       bytes(g.label._data))
    src2 = b''.join(g2.lua.to_lines())
    exp_src = src
    if len(src) == 0 or src[len(src) - 1] != 10:
        exp_src = src + b'\n'
    x.out('code', src2)
    x.check('Lua code preserved (a missing final newline is supplied)',
            src2 == exp_src)
    # idempotence: writing the re-read cart gives the identical file
    out2 = hx.MemStream()
    P8Formatter.to_file(g2, out2, filename='x.p8')
    same_bytes(x, 're-written file is byte-identical', out2.getvalue(), data)


Q = {'_budget': 300}
ROWS_Q = {'gfx': [0], 'gff': [1], 'map': [31], 'sfx': [63], 'music': [0, 63],
          'label': [127]}
ROWS_T = [
    {'gfx': [0, 1, 127], 'gff': [0, 1], 'map': [0, 16, 31],
     'sfx': [0, 1, 63], 'music': list(range(0, 64, 9)), 'label': [0, 64]},
    {'gfx': [63, 64], 'gff': [0], 'map': [1], 'sfx': [31, 32],
     'music': list(range(64)), 'label': [1]},
]
TRICKY = (b'-- title \x8e\n-- by\ta\n\na="x\\"y\\065\\n\\x41\\\n z" b=\'q"\' '
          b'c=[==[\nlong]] ]==] --[[ blk\n]] d=0x1.8 //c\n\x80\x99=1 '
          b'if (a) ?b\n::l:: goto l\r\nx..=\"\x01\xff\"')


def cli(x, p):
    """`p8tool writep8 in.p8` through tool.main: the rewritten cart is byte
    for byte the cart picotool wrote before (all sections, label, version),
    and the input is not touched."""
    from props import clikit
    from props.C13 import cart_text
    tag = x.choice('tag', [1, 77, 127])
    label = x.bool('label')
    code = x.choice('code', [None, TRICKY])
    src = cart_text(tag, label=label, code=code)
    files = {'/w/in.p8': src}
    # what is at the output path before: nothing, or another cart (with a
    # label of its own) that is simply replaced
    if x.bool('output_exists'):
        files['/w/in_fmt.p8'] = cart_text(55, label=True)
    fs = clikit.MemFS(x, files)
    rc, exc = clikit.run_main(['writep8', '/w/in.p8'])
    x.check('writep8 succeeds', And(exc is None, rc == 0),
            info=repr((rc, exc))[:120])
    x.check('exactly in_fmt.p8 is written',
            clikit.only_changed(fs, '/w/in_fmt.p8'))
    x.check('the input keeps its bytes', fs.files['/w/in.p8'] == src)
    if '/w/in_fmt.p8' in fs.files:
        x.check('re-writing the re-read cart gives a byte-identical file',
                fs.files['/w/in_fmt.p8'] == src)
        if code is not None:
            from pico8.lua.lua import Lua as _L
            from pico8.game.formatter.p8 import P8Formatter as _F
            got = _F.from_file(hx.MemStream(fs.files['/w/in_fmt.p8']),
                               filename='x.p8')
            from pico8.lua import lexer as _lx

            def spell(text):
                lx = _lx.Lexer(version=8)
                lx.process_lines([text])
                return [(type(t).__name__, t.value if isinstance(
                    t, _lx.TokString) else t.code) for t in lx.tokens]
            x.check('the code survives byte for byte outside string '
                    'literals, which keep their value (final newline '
                    'supplied)',
                    spell(b''.join(got.lua.to_lines())) ==
                    spell(code + b'\n'))
        x.check('a label section is present exactly when the cart has a '
                'label', (b'__label__' in bytes(fs.files['/w/in_fmt.p8']))
                == label)


HARNESSES = [
    Harness('regions', roundtrip,
            quick=[dict(Q, rows=ROWS_Q, label=True, maxver=65535),
                   dict(Q, rows={'gfx': [5]}, label=False, maxver=99)],
            thorough=[dict(Q, rows=r, label=True, _budget=1800)
                      for r in ROWS_T] +
                     [dict(Q, rows={}, label=False, maxver=65535)]),
    Harness('code', roundtrip, logic=LOGIC,
            quick=[dict(Q, code='comment', ncode=1, maxver=8),
                   dict(Q, code='string', ncode=1, maxver=8),
                   dict(Q, code='ident', ncode=1, maxver=8),
                   dict(Q, code='dunder', ncode=1, maxver=8),
                   dict(Q, code='comment', ncode=1, crlf=True,
                        final_nl=False, maxver=8),
                   dict(Q, code='longline', ncode=1, maxver=8),
                   dict(Q, code='glyphdunder', ncode=1, maxver=8),
                   dict(Q, code='glyphdunder', ncode=2, maxver=8),
                   dict(Q, code='comment', ncode=1, eol='cr', maxver=8),
                   dict(Q, code='ident', ncode=1, eol='cr', maxver=8)],
            thorough=[dict(Q, code=c, ncode=2, maxver=8, _budget=1800)
                      for c in ('comment', 'string', 'ident')] +
                     [dict(Q, code='comment', ncode=2, crlf=True,
                           final_nl=False, maxver=8, _budget=1800)]),
    Harness('cli', cli, quick=[Q]),
]
