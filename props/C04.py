"""C04 - .p8.png cart write/read round trip preserves cart and label picture."""
import builtins
import os
import tempfile

from symx.api import Harness
from symx import hx, rt
from symx.hx import And, Or, Not, Ite
from ref import p8format as F
from pico8.game.game import Game
from pico8.game import compress
from pico8.game.formatter import p8png
from pico8.game.formatter.p8png import P8PNGFormatter
from pico8.lua.lua import Lua

ENCODED = ['pico8.game.formatter.p8png.P8PNGFormatter.to_file/from_file',
           'pico8.game.formatter.p8png.get_bytes_from_code',
           'pico8.game.formatter.p8png.get_code_from_bytes',
           'pico8.game.formatter.p8png.get_raw_data_from_p8png_file',
           'pico8.game.formatter.p8png.get_pngdata_from_picodata/'
           'get_picodata_from_pngdata',
           'pico8.game.compress.compress_code/decompress_code (short code)']
ASSUMPTIONS = [
    'symbolic runs replace pypng by a stub that hands the formatter the '
    'label rows and captures the rows it writes; the native replay of every '
    'path witness uses the real pypng end to end (valid PNG, same pixels)',
    'the label image has the cart geometry 160x205 RGBA',
    'code contains no NUL byte; symbolic bytes sit inside a comment',
    'fit check: compress_code is replaced by a contract stub returning a '
    'stream of a chosen length (its content does not matter for fitting)',
]
OUTSIDE = ['PNG container validity and zlib (pypng/C): native replay only',
           'code longer than the symbolic shapes (C05 covers compression)']

W_, H_ = 160, 205
SECS = (('gfx', 0x0000, 0x2000, 64), ('map', 0x2000, 0x3000, 128),
        ('gff', 0x3000, 0x3100, 128), ('music', 0x3100, 0x3200, 4),
        ('sfx', 0x3200, 0x4300, 68))


class FakeReader:
    def __init__(self, rows):
        self.rows = rows

    def read(self):
        return (W_, H_, iter(self.rows),
                {'planes': 4, 'alpha': True, 'bitdepth': 8,
                 'greyscale': False})


class FakeWriter:
    captured = None

    def __init__(self, width, height, **attrs):
        self.dims = (width, height)

    def write(self, outstr, rows):
        FakeWriter.captured = [r for r in rows]
        outstr.write(b'PNG')


class FakeFile:
    def __init__(self, name):
        self.name = name

    def __enter__(self):
        return self

    def __exit__(self, *a):
        return False


def label_rows(x, p):
    """160x205 RGBA rows: a fixed pattern with symbolic pixels at the
    positions that carry the symbolic data bytes (and a few others)."""
    rows = []
    for r in range(H_):
        rows.append([(7 * r + 3 * c) % 256 for c in range(W_ * 4)])
    sym = {}
    for k in p.get('label_px', []):
        px = x.ints('lab%d' % k, 4, 0, 255)
        r, c = divmod(k, W_)
        rows[r][c * 4:c * 4 + 4] = px
        sym[k] = px
    return rows, sym


def build_game(x, p):
    if p.get('trimmed'):
        # .p8 -> .p8.png conversion of a cart as PICO-8 saves it: the solver
        # chooses how many rows of each section the .p8 file holds
        from pico8.game.formatter.p8 import P8Formatter
        from props.p8text import trimmed_text, REGION
        counts = {}
        for sec in p['trimmed']:
            tot = REGION[sec][0] // REGION[sec][1]
            counts[sec] = x.choice('rows_' + sec, [None, 0, 1, tot - 1, tot])
        text, _ = trimmed_text(counts, code=b'x=1 -- code\ny=2\n')
        g = P8Formatter.from_file(hx.MemStream(text), filename='x.p8')
        for name, lo, hi, width in SECS:
            sec = getattr(g, name)
            x.check('region %s has its full size' % name,
                    len(sec._data) == hi - lo)
            if len(sec._data) != hi - lo:
                return None
            for r in p.get('rows', {}).get(name, []):
                # make the watched rows symbolic on top of the loaded cart
                sec._data[r * width:(r + 1) * width] = x.bytearray(
                    '%s%d' % (name, r), width)
        return g
    g = Game.make_empty_game(filename='x.p8.png')
    n = p.get('ncode', 0)
    body = p.get('body', 'x=1\n').encode('latin-1')
    if n:
        s = x.bytes('code', n, 1, 255)
        for k in range(n):
            x.assume(And(s[k] != 10, s[k] != 13))
        code = [b'--' + s + b'\n' + body]
    else:
        code = [body]
    try:
        g.lua = Lua.from_lines(code, version=8)
    except Exception:
        return None
    for name, lo, hi, width in SECS:
        sec = getattr(g, name)
        for r in p.get('rows', {}).get(name, []):
            sec._data[r * width:(r + 1) * width] = x.bytearray(
                '%s%d' % (name, r), width)
    g.version = x.int('version', 0, 255)
    return g


def roundtrip(x, p):
    g = build_game(x, p)
    if g is None:
        x.tag('source not lexable')
        return
    rows, sym = label_rows(x, p)
    src = b''.join(g.lua.to_lines())
    before = dict((name, bytes(getattr(g, name)._data))
                  for name, _, _, _ in SECS)
    if x.symbolic:
        import png
        rt.stub(builtins.open, lambda name, mode='r': FakeFile(name))
        rt.stub(png.Reader, lambda file=None, **k: FakeReader(
            [bytearray(r) for r in rows]))
        rt.stub(png.Writer, FakeWriter)
        out = hx.MemStream()
        try:
            P8PNGFormatter.to_file(g, out, filename='x.p8.png',
                                   label_fname='label.png')
        except Exception as e:
            x.check('to_file writes a cart whose code fits', False,
                    info=repr(e))
            return
        new_rows = FakeWriter.captured
        rt.stub(png.Reader, lambda file=None, **k: FakeReader(new_rows))
        g2 = P8PNGFormatter.from_file(hx.MemStream(b'PNG'),
                                      filename='x.p8.png')
    else:
        import png
        d = tempfile.mkdtemp(prefix='c04')
        try:
            lab = os.path.join(d, 'label.png')
            with open(lab, 'wb') as fh:
                png.Writer(W_, H_, alpha=True, greyscale=False,
                           bitdepth=8).write(fh, rows)
            outp = os.path.join(d, 'out.p8.png')
            try:
                with open(outp, 'wb') as fh:
                    P8PNGFormatter.to_file(g, fh, filename=outp,
                                           label_fname=lab)
            except Exception as e:
                x.check('to_file writes a cart whose code fits', False,
                        info=repr(e))
                return
            w2, h2, r2, attrs2 = png.Reader(filename=outp).read()
            new_rows = [bytearray(r) for r in r2]
            x.check('written file is a PNG of the cart geometry (pypng)',
                    (w2, h2, attrs2['planes']) == (W_, H_, 4))
            with open(outp, 'rb') as fh:
                g2 = P8PNGFormatter.from_file(fh, filename=outp)
        finally:
            for f in os.listdir(d):
                os.remove(os.path.join(d, f))
            os.rmdir(d)
    # --- writing is not an edit: the cart object is as it was (it may be
    # saved again, as .p8 or .p8.png, or edited further)
    for name, lo, hi, width in SECS:
        now = getattr(g, name)._data
        x.check('writing leaves the cart\'s ' + name + ' region as it was',
                len(now) == hi - lo and bytes(now) == before[name])
    # --- memory layout: pixel k carries byte k of gfx|map|gff|music|sfx|...
    x.check('row count', len(new_rows) == H_)
    conds = []
    for name, lo, hi, width in SECS:
        for r in p.get('rows', {}).get(name, []):
            for k in range(width):
                addr = lo + r * width + k
                pr, pc = divmod(addr, W_)
                px = new_rows[pr][pc * 4:pc * 4 + 4]
                conds.append(F.png_byte(px[0], px[1], px[2], px[3]) ==
                             before[name][r * width + k])
    x.check_all('pixel k carries byte k of gfx|map|gff|music|sfx', conds)
    pr, pc = divmod(0x8000, W_)
    px = new_rows[pr][pc * 4:pc * 4 + 4]
    x.check('version byte at 0x8000',
            F.png_byte(px[0], px[1], px[2], px[3]) == g.version)
    # --- label picture: upper six bits of every channel kept
    conds = []
    for k, opx in sym.items():
        r, c = divmod(k, W_)
        npx = new_rows[r][c * 4:c * 4 + 4]
        for ch in range(4):
            conds.append((npx[ch] & 252) == (opx[ch] & 252))
    x.check_all('label pixels kept in the upper six bits', conds or [True])
    # --- read back
    x.check('version preserved', g2.version == g.version)
    for name, _, _, _ in SECS:
        x.check_all(name + ' region preserved', hx.neq_pairs(
            bytes(getattr(g2, name)._data), before[name]))
    code2 = b''.join(g2.lua.to_lines())
    x.out('code', code2)
    exp = src.replace(b'\r', b' ')
    x.check('code preserved up to the reader\'s trailing newline',
            Or(code2 == exp, code2 == exp + b'\n'))


def fit(x, p):
    """get_bytes_from_code: fits -> exactly 0x3d00 bytes, code first, zero
    padded; does not fit -> refused."""
    n = p['n']
    clen = p['clen']
    seam = x.bytes('seam', 2, 1, 255)
    code = bytes([97 + (i % 23) for i in range(n - 2)]) + seam
    stream = bytes(clen)
    if x.symbolic:
        rt.stub(compress.compress_code, lambda c: bytearray(stream))
        saved = None
    else:
        saved = compress.compress_code
        compress.compress_code = lambda c: bytearray(stream)
    try:
        raised = None
        try:
            area = p8png.get_bytes_from_code(code)
        except Exception as e:
            raised = e
    finally:
        if saved is not None:
            compress.compress_code = saved
    use_compressed = clen < n
    size = (clen + 8) if use_compressed else n
    x.out('raised', raised is not None)
    if size > 0x3d00 or n > 0xffff:
        # (the header stores the code length in two bytes, and PICO-8 does
        # not run more than 65535 characters: a longer code does not fit
        # however well it compresses)
        x.check('code that does not fit is refused with an error',
                raised is not None)
        return
    x.check('code that fits is accepted', raised is None, info=repr(raised))
    if raised is not None:
        return
    x.check('code area is exactly 0x3d00 bytes', len(area) == 0x3d00)
    if use_compressed:
        x.check('header: :c:, length big-endian, two zero bytes', And(
            bytes(area[0:4]) == b':c:\x00', area[4] == (n >> 8),
            area[5] == (n & 255), area[6] == 0, area[7] == 0))
    else:
        x.check('raw code stored from the start of the area',
                bytes(area[n - 2:n]) == seam)
        x.check('raw code starts at offset 0', area[0] == code[0])
    x.check('zero padding after the code', And(*[
        area[k] == 0 for k in range(size, min(size + 4, 0x3d00))]))
    if not use_compressed:
        # reading the raw area back: the whole code, also when it fills the
        # area completely (no NUL terminator left)
        try:
            length, back, csize = p8png.get_code_from_bytes(area, 8)
        except Exception as e:
            x.check('a raw code area reads back', False, info=repr(e))
            return
        x.check('raw code length as stored', length == n)
        if len(back) != n + 1:
            x.check('raw code reads back completely (the reader adds a '
                    'final newline)', False, info='length %d' % len(back))
            return
        # (the reader turns CR into a blank)
        exp_seam = [Ite(c == 13, 32, c) for c in seam]
        x.check('raw code reads back completely (the reader adds a final '
                'newline)', And(len(back) == n + 1,
                                back[n - 2] == exp_seam[0],
                                back[n - 1] == exp_seam[1],
                                back[n] == 10,
                                back[0] == Ite(code[0] == 13, 32, code[0]),
                                csize is None))


def fit_sym(x, p):
    """get_bytes_from_code with the code length and the length of the
    compressed stream as symbolic integers (contents uninterpreted): the
    solver looks for the boundary itself.  Accepted iff the stored form
    (stream + 8 header bytes when the stream is shorter than the code, else
    the code) fits 0x3d00 bytes and the code is at most 65535 characters;
    when accepted, the area is 0x3d00 bytes, starts with the stored form and
    is zero after it."""
    code = x.mseq('code', 0, p['max'], mutable=False)
    stream = x.mseq('stream', 0, p['max'])
    n = hx.length(code)
    clen = hx.length(stream)
    # another cart's code was stored earlier in the same process: nothing of
    # it may be left in this cart's code area
    p8png.get_bytes_from_code(bytes(range(1, 200)) * 3)
    if x.symbolic:
        rt.stub(compress.compress_code, lambda c: stream)
        saved = None
    else:
        saved = compress.compress_code
        compress.compress_code = lambda c: bytearray(stream)
    try:
        raised = None
        try:
            area = p8png.get_bytes_from_code(code)
        except Exception as e:
            raised = e
    finally:
        if saved is not None:
            compress.compress_code = saved
    x.out('raised', raised is not None)
    # the code fits when one of the two storage forms does: raw (as many
    # bytes as characters), or the :c: form (8 header bytes + stream, code
    # at most 65535 characters - the header has two length bytes)
    raw_fits = n <= 0x3d00
    comp_fits = And(clen + 8 <= 0x3d00, n <= 0xffff)
    x.check('a cart whose code fits (raw or compressed) is written',
            Or(raised is None, Not(Or(raw_fits, comp_fits))),
            info=repr(raised))
    x.check('a cart whose code fits in neither form is refused',
            Or(raised is not None, raw_fits, comp_fits))
    if raised is not None:
        return
    x.check('code area is exactly 0x3d00 bytes', hx.length(area) == 0x3d00)
    if hx.length(area) != 0x3d00:
        return
    a = x.int('addr', 0, 0x3d00 - 1)
    got = area[a]
    x.out('byte', got)
    # which form was stored is the writer's choice, the area says which
    # (a code that itself begins with ":c:" reads as compressed whichever
    # way it is stored - a limitation of the format, outside the claim)
    if n >= 3:
        x.assume(Not(And(code[0] == 58, code[1] == 99, code[2] == 58)))
    use_compressed = And(area[0] == 58, area[1] == 99, area[2] == 58,
                         area[3] == 0)
    if use_compressed:
        x.check('the compressed form is stored only when it fits', comp_fits)
    else:
        x.check('the raw form is stored only when it fits', raw_fits)
    if use_compressed:
        hdr = [58, 99, 58, 0, n >> 8, n & 255, 0, 0]
        exp = 0
        for k in range(8):
            exp = Ite(a == k, hdr[k], exp)
        if And(a >= 8, a < clen + 8):
            exp = stream[a - 8]
        elif a >= 8:
            exp = 0
    else:
        if a < n:
            exp = code[a]
        else:
            exp = 0
    x.check('area = stored form, then zero padding', got == exp)


def label_source(x, p):
    """file.to_file: the label comes from the existing destination, else
    from the bundled blank label; the destination is written last."""
    from pico8.game import file as gfile
    g = Game.make_empty_game(filename='x.p8.png')
    g.lua = Lua.from_lines([b'x=1\n'], version=8)
    exists = x.bool('exists')
    opened = []
    if x.symbolic:
        import png
        blank = [bytearray((11 * r + c) % 256 for c in range(W_ * 4))
                 for r in range(H_)]
        mine = [bytearray((5 * r + 2 * c + 1) % 256 for c in range(W_ * 4))
                for r in range(H_)]
        dest = '/w/out.p8.png'
        final = hx.MemStream()

        def fake_open(name, mode='r'):
            opened.append((name, mode))
            if 'w' in mode:
                return final
            return FakeFile(name)
        last = []

        def fake_reader(file=None, **k):
            last.append(file.name)
            return FakeReader(mine if file.name == dest else blank)
        rt.stub(builtins.open, fake_open)
        rt.stub(os.path.exists, lambda name: exists)
        rt.stub(tempfile.TemporaryFile, lambda **k: hx.MemStream())
        rt.stub(png.Reader, fake_reader)
        rt.stub(png.Writer, FakeWriter)
        gfile.to_file(g, dest)
        rows = FakeWriter.captured
        src = mine if exists else blank
        label_from = last[0]
        wrote_final = len(final.items) > 0
        # the picture at the destination is replaced (another label) and the
        # cart written there again in the same process
        mine2 = [bytearray((7 * r + 3 * c + 5) % 256 for c in range(W_ * 4))
                 for r in range(H_)]
        rt.stub(png.Reader, lambda file=None, **k: FakeReader(
            mine2 if file.name == dest else blank))
        rt.stub(os.path.exists, lambda name: True)
        gfile.to_file(g, dest)
        rows2 = FakeWriter.captured
    else:
        import png
        d = tempfile.mkdtemp(prefix='c04l')
        try:
            dest = os.path.join(d, 'out.p8.png')
            mine = [bytearray((5 * r + 2 * c + 1) % 256
                              for c in range(W_ * 4)) for r in range(H_)]
            if exists:
                with open(dest, 'wb') as fh:
                    png.Writer(W_, H_, alpha=True, greyscale=False,
                               bitdepth=8).write(fh, mine)
                src = mine
            else:
                src = [bytearray(r) for r in png.Reader(
                    filename=p8png.EMPTY_LABEL_FNAME).read()[2]]
            gfile.to_file(g, dest)
            rows = [bytearray(r) for r in png.Reader(
                filename=dest).read()[2]]
            wrote_final = os.path.getsize(dest) > 0
            label_from = dest if exists else p8png.EMPTY_LABEL_FNAME
            mine2 = [bytearray((7 * r + 3 * c + 5) % 256
                               for c in range(W_ * 4)) for r in range(H_)]
            with open(dest, 'wb') as fh:
                png.Writer(W_, H_, alpha=True, greyscale=False,
                           bitdepth=8).write(fh, mine2)
            gfile.to_file(g, dest)
            rows2 = [bytearray(r) for r in png.Reader(
                filename=dest).read()[2]]
        finally:
            for f in os.listdir(d):
                os.remove(os.path.join(d, f))
            os.rmdir(d)
    x.out('exists', exists)
    x.check('label source: the existing destination, else the bundled blank',
            label_from == (dest if exists else p8png.EMPTY_LABEL_FNAME))
    x.check('destination written', wrote_final)
    ok = True
    for r in (0, 1, 100, 204):
        for c in range(0, W_ * 4, 37):
            if (rows[r][c] & 252) != (src[r][c] & 252):
                ok = False
    x.check('written pixels keep the label source in the upper six bits', ok)
    ok2 = True
    for r in (0, 1, 100, 204):
        for c in range(0, W_ * 4, 37):
            if (rows2[r][c] & 252) != (mine2[r][c] & 252):
                ok2 = False
    x.check('a second write over a replaced picture keeps the new picture',
            ok2)


Q = {'_budget': 400}
HARNESSES = [
    Harness('roundtrip', roundtrip,
            quick=[dict(Q, ncode=2, rows={'gfx': [0], 'sfx': [63],
                                         'music': [63]},
                        label_px=[0, 1, 0x8000, 0x8001, 32799]),
                   dict(Q, ncode=0, body='', rows={'map': [31]},
                        label_px=[0x2000 + 31 * 128]),
                   dict(Q, ncode=1, body='x=1\n' * 30, rows={'gff': [1]},
                        label_px=[0x4300])],
            thorough=[dict(Q, ncode=3, rows={'gfx': [0, 127], 'map': [0],
                                            'gff': [0], 'sfx': [0, 63],
                                            'music': [0, 63]},
                           label_px=[0, 159, 160, 0x4300, 0x8000, 32799],
                           _budget=1800),
                      dict(Q, ncode=2, body='x=1\n' * 30, rows={},
                           label_px=[5], _budget=1800),
                      dict(Q, ncode=0, body='', rows={}, label_px=[])]),
    # .p8 (as saved by PICO-8, sections trimmed) -> .p8.png -> read back
    Harness('convert', roundtrip,
            quick=[dict(Q, trimmed=['gfx', 'music'],
                        rows={'map': [0], 'sfx': [63]}, label_px=[0x2000]),
                   dict(Q, trimmed=['gff', 'map'],
                        rows={'music': [0], 'gff': [1]}, label_px=[0x3100])],
            thorough=[dict(Q, trimmed=['gfx', 'gff', 'map', 'music'],
                           rows={'map': [0], 'gff': [0], 'music': [0],
                                 'sfx': [0]}, label_px=[0x2000],
                           _budget=1800)]),
    Harness('label_source', label_source, quick=[Q]),
    Harness('fit_sym', fit_sym, logic='QF_AUFBV',
            quick=[dict(Q, max=0x11000)],
            thorough=[dict(Q, max=0x40000)]),
    Harness('fit', fit,
            quick=[dict(Q, n=n, clen=c) for n, c in (
                (0x3cff, 0x3d00), (0x3d00, 0x3d01), (0x3d01, 0x3d02),
                (0x4000, 0x3d00 - 8), (0x4000, 0x3d00 - 7), (40, 10),
                (0xffff, 100), (0x10000, 100), (0x101d0, 0x3d00 - 8))],
            thorough=[dict(Q, n=n, clen=c) for n, c in (
                (0x3cff, 0x3d00), (0x3d00, 0x3d01), (0x3d01, 0x3d02),
                (0x10000, 0x10001), (0x4000, 0x3d00 - 8),
                (0x4000, 0x3d00 - 7), (0xffff, 0x3d00 - 8), (40, 10),
                (2, 3), (0xffff, 100), (0x10000, 100), (0x10001, 3),
                (0x101d0, 0x3d00 - 8), (0x20000, 0x100))]),
]
