"""C05 - code compression is lossless and emits only well-formed :c: streams;
picotool's decompressor agrees with an independent decoder."""
from symx.api import Harness
from symx import hx
from symx.hx import And, Or, Not, Ite
from ref import pxc
from pico8.game import compress

ENCODED = ['pico8.game.compress._find_repeatable_block',
           'pico8.game.compress.compress_code',
           'pico8.game.compress.decompress_code']
ASSUMPTIONS = [
    'code text contains no NUL byte (neither the raw nor the compressed code '
    'area can represent one: NUL terminates / pads the area) and does not '
    'itself end with the reserved compatibility suffix',
    'the 8-byte header is built as get_bytes_from_code builds it (that '
    'function itself is checked under C04)',
]
OUTSIDE = ['texts longer than the bound (the search loops grow with the '
           'input); long-range repeats near the 3120-byte window edge']


def header(n):
    return b':c:\0' + bytes([n >> 8, n & 255]) + b'\0\0'


def wf_blocks(x, stream, total):
    """Every block: length 3..17, 1 <= offset <= produced so far."""
    out_len = 0
    i = 0
    n = len(stream)
    conds = []
    while i < n:
        b = stream[i]
        if b == 0:
            i += 2
            out_len += 1
        elif b <= 0x3b:
            i += 1
            out_len += 1
        else:
            b2 = stream[i + 1]
            offset = (b - 0x3c) * 16 + (b2 & 15)
            length = (b2 >> 4) + 2
            conds.append(And(length >= 3, length <= 17, offset >= 1,
                             offset <= out_len))
            out_len += x.conc(length)
            i += 2
    return conds, out_len


def roundtrip(x, p):
    n = p['n']
    text = x.bytes('text', n, 1, 255)
    pre = p.get('pre', '').encode('latin-1')
    post = p.get('post', '').encode('latin-1')
    if pre or post:
        mid = p['mid'].encode('latin-1')
        k = n // 2
        text = text[:k] + pre + mid + post + text[k:]
    if p.get('warmup'):
        # another text was compressed earlier in the same process (p8tool
        # working through several carts): the result for this one must not
        # depend on it
        try:
            compress.compress_code(p['warmup'].encode('latin-1'))
        except Exception as e:
            x.check('compress_code does not raise', False, info=repr(e))
            return
    arg = text
    if p.get('as_bytearray'):
        # a caller that holds its text in a bytearray: compressing must not
        # change the caller's buffer (the header length is taken from it)
        arg = bytearray(text)
    try:
        stream = compress.compress_code(arg)
    except Exception as e:
        x.check('compress_code does not raise', False, info=repr(e))
        return
    x.check('the text handed to compress_code is left as it was',
            bytes(arg) == text)
    x.out('stream', bytes(stream))
    full = text
    if b'_update60' in text:
        if text[-1] != 32 and text[-1] != 10:
            full = full + b'\n'
        full = full + compress.PICO8_FUTURE_CODE2
    conds, total = wf_blocks(x, stream, len(full))
    x.check_all('every back-reference has length 3..17 and points inside '
                'produced output', conds)
    ref_out, ok = pxc.decode(list(stream))
    x.check('independent decoder accepts the stream', ok)
    x.check('independent decoder recovers the text (plus the documented '
            'suffix)', bytes(ref_out) == full)
    # picotool's own decoder on header + stream
    area = header(len(text)) + bytes(stream)
    try:
        length, code, csize = compress.decompress_code(area)
    except Exception as e:
        x.check('decompress_code does not raise on its own output', False,
                info=repr(e))
        return
    x.out('code', code)
    x.check('decoding the produced code area returns exactly the text',
            code == text)
    x.check('reported length is the header length', length == len(text))


def agree(x, p):
    """decompress_code vs the reference decoder on arbitrary streams."""
    ns = p['ns']
    stream = x.bytes('s', ns)
    length = x.int('len', 0, p['maxlen'])
    area = header_sym(length) + stream
    ref_out, ok = pxc.decode(list(stream), limit=length)
    # the claim is about well-formed streams that produce exactly `length`
    # non-NUL bytes and are consumed entirely
    if not ok:
        x.tag('malformed')
        return
    if len(ref_out) != length:
        x.tag('short')
        return
    x.assume(And(*[c != 0 for c in ref_out]))
    x.tag('wellformed len=%d' % len(ref_out))
    try:
        n2, code, csize = compress.decompress_code(area)
    except Exception as e:
        x.check('decompress_code accepts every well-formed stream', False,
                info=repr(e))
        return
    x.out('code', code)
    x.check('decompress_code agrees with the format decoder',
            code == bytes(ref_out))


def window(x, p):
    """_find_repeatable_block at the edge of the history window: a marker
    of three symbolic bytes repeated at distance D over an incompressible
    concrete filler."""
    D = p['D']
    marker = x.bytes('m', 3, 1, 255)
    # filler without any repeated 3-byte sequence and without the marker's
    # first byte: 2-byte counters separated by a byte that never repeats
    filler = []
    k = 0
    while len(filler) < D - 3:
        filler.extend([0x80 | (k & 0x7f), 0xc0 | ((k >> 7) & 0x3f),
                       0x21 + (k % 3)])
        k += 1
    filler = bytes(filler[:D - 3])
    for c in marker:
        x.assume(And(c < 0x80, Or(c < 0x21, c > 0x23)))
    dat = marker + filler + marker + b'\x00'
    pos = D
    try:
        blen, boff = compress._find_repeatable_block(dat, pos)
    except Exception as e:
        x.check('block search does not raise', False, info=repr(e))
        return
    x.out('found', [blen, boff])
    if blen >= 3:
        x.tag('match D=%d' % D)
        x.check('offset is encodable in the first block byte (<= 3135) and '
                'non-zero', And(boff >= 1,
                                boff // 16 + len(
                                    compress.COMPRESSED_LUA_CHAR_TABLE)
                                <= 255))
        x.check('block length 3..17', And(blen >= 3, blen <= 17))
        x.check('the block really repeats earlier output', And(*[
            dat[pos - boff + t] == dat[pos + t] for t in range(3)]))
    else:
        x.tag('no match D=%d' % D)
        x.check('a repeat inside the 3120-byte window is found',
                D > 3120)


def faroff(x, p):
    """The decoder on a well-formed stream picotool's compressor would not
    produce: a back-reference whose offset lies beyond the compressor's
    search window (3121..3135 - all the two-byte form can express), after a
    long run of literals; length and offset symbolic."""
    off = x.conc(x.int('offset', p['lo'], p['hi']))
    ln = x.conc(x.int('length', 3, 17))
    first = x.int('first', 1, 58)          # table index of the first literal
    nlit = 3140
    lits = [first] + [0x0d + (k % 20) for k in range(nlit - 1)]
    b1 = off // 16 + 0x3c
    b2 = (off % 16) + (ln - 2) * 16
    stream = bytes(lits) + bytes([b1, b2])
    total = nlit + ln
    area = header_sym(total) + stream
    ref_out, ok = pxc.decode(list(stream), limit=total)
    x.check('the reference decoder accepts the stream', ok)
    try:
        n2, code, csize = compress.decompress_code(area)
    except Exception as e:
        x.check('decompress_code accepts every well-formed stream', False,
                info=repr(e))
        return
    x.out('tail', bytes(code[-20:]))
    x.check('decompress_code agrees with the format decoder',
            code == bytes(ref_out))


def longlen(x, p):
    """Header lengths around the byte and sign boundaries (255/256, 32767/
    32768, 65535): a concrete stream (one literal, then copies of length 17
    at offset 1) long enough for the stated length; length symbolic within
    the window."""
    lo, hi = p['lo'], p['hi']
    length = x.conc(x.int('len', lo, hi))      # one path per length
    nblocks = (hi + 16) // 17
    stream = bytes([0x0d]) + bytes([0x3c, 0xf1]) * nblocks
    area = header_sym(length) + stream
    try:
        n2, code, csize = compress.decompress_code(area)
    except Exception as e:
        x.check('decompress_code accepts a long well-formed stream', False,
                info=repr(e))
        return
    x.out('n', len(code))
    x.check('reported length is the header length', n2 == length)
    x.check('decoded text has the stated length', len(code) == length)
    if len(code) == length:
        x.check('decoded text is the repeated character', And(
            code[0] == 97, code[len(code) - 1] == 97, code[len(code) // 2] == 97))


def header_sym(n):
    return b':c:\0' + bytes([n >> 8, n & 255]) + b'\0\0'


FUTURE1 = compress.PICO8_FUTURE_CODE1.decode('latin-1')
FUTURE2 = compress.PICO8_FUTURE_CODE2.decode('latin-1')
Q = {'_budget': 300}
K17 = 'abcdefghijklmnopq'
UP = 'ABCDEFGHIJKLMNOPQRSTUVWXYZ0123456789'
HISTORY = [dict(Q, n=1, warmup=w, pre=UP[:k], mid=m, post='!')
           for w, k, m in (('AB' + K17 + K17, 22, K17), (K17 + K17, 17, K17),
                           (K17 + 'xy' + K17 + K17, 36, K17 + 'z'),
                           ('function f()\n return 1\nend\n' * 3, 30,
                            'function f()\n return 1\nend\n'))]
HARNESSES = [
    Harness('faroff', faroff, quick=[dict(Q, lo=3119, hi=3122),
                                     dict(Q, lo=3134, hi=3135)]),
    Harness('history', roundtrip, quick=HISTORY[:2],
            thorough=[dict(h, n=2, _budget=1800) for h in HISTORY]),
    Harness('roundtrip', roundtrip,
            quick=[dict(Q, n=n) for n in (0, 1, 2, 3, 4)],
            thorough=[dict(Q, n=n, _budget=1200) for n in (0, 1, 2, 3, 4, 5,
                                                          6)]),
    Harness('update60', roundtrip,
            quick=[dict(Q, n=2, mid='_update60', pre='if', post=''),
                   # PICO-8's own compatibility line written out in the
                   # middle of a program is ordinary code
                   dict(Q, n=2, mid=FUTURE2, pre='', post='\nx=1'),
                   dict(Q, n=1, mid=FUTURE1, pre='y=2\n', post='\n'),
                   dict(Q, n=2, mid='_update60', pre='', post='\n',
                        as_bytearray=True)],
            thorough=[dict(Q, n=2, mid='_update60', pre='', post='\n'),
                      dict(Q, n=2, mid='_update60', pre='if', post=''),
                      dict(Q, n=4, mid='_update60', pre='', post='',
                           _budget=1800)]),
    Harness('window', window,
            quick=[dict(Q, D=d) for d in (3119, 3120, 3121, 3135, 3136,
                                          3137)]),
    Harness('longlen', longlen,
            quick=[dict(Q, lo=254, hi=258), dict(Q, lo=32766, hi=32770),
                   dict(Q, lo=65534, hi=65535)]),
    Harness('agree', agree,
            quick=[dict(Q, ns=3, maxlen=6), dict(Q, ns=4, maxlen=8)],
            thorough=[dict(Q, ns=4, maxlen=8, _budget=900),
                      dict(Q, ns=5, maxlen=8, _budget=1800)]),
]
