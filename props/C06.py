"""C06 - the default writer echoes the source losslessly.

Reduction: output = concatenation of token codes (echo_lines); for every
token other than a quoted string, code = the consumed source bytes (C07 step
lemma 'token text = source extent' plus long_code below); for quoted strings
tok.value = the bytes the source literal denotes (C07) and the re-spelling
code(value) denotes value again (encode_decode below), for every byte string
value, both quote kinds, whatever follows the literal."""
from symx.api import Harness
from symx import hx
from symx.hx import And, Or, Not, Ite
from ref import lualex as R
from pico8.lua import lexer
from pico8.lua import lua

ENCODED = ['pico8.lua.lexer.TokString.code', 'pico8.lua.lexer._STRING_ESCAPES'
           ' / _STRING_REVERSE_ESCAPES (live tables)',
           'pico8.lua.lexer.Lexer._process_token (in-string branch)',
           'pico8.lua.lua.LuaEchoWriter.to_lines']
ASSUMPTIONS = [
    'C07 step lemma (token text = source extent; decoded string bytes) is '
    'checked under C07 and used here',
    'hand step: the encoder treats each byte of the value independently '
    'except for the digit look-ahead, so values of length <= N with N >= 2 '
    'cover every (byte, next byte) combination',
]
OUTSIDE = ['string values longer than the bound']


def encode_decode(x, p):
    n = p['n']
    q = p['q']
    v = x.bytes('v', n)
    if p.get('after_other_quote'):
        # the same contents were spelled before, as a literal with the other
        # quote character (and as a long string): each token is spelled for
        # its own delimiters
        lexer.TokString(v, 0, 0, quote=bytes([73 - q])).code
        lexer.TokString(v, 0, 0, multiline_quote=b'').code
    tok = lexer.TokString(v, 0, 0, quote=bytes([q]))
    code = tok.code
    x.out('code', code)
    x.check('re-spelling is delimited by the original quote',
            And(len(code) >= 2, code[0] == q, code[len(code) - 1] == q))
    body = code[1:]
    # follow the literal with an arbitrary byte: the literal must end at its
    # own closing quote whatever comes next
    tail = x.bytes('tail', p.get('tail', 1))
    ref = R.step(('string', q), body + tail)
    verdict, kind, length, value, mode2 = ref
    x.tag(verdict)
    x.check('re-spelling is a well-formed literal of the dialect',
            verdict == 'tok', info=verdict)
    if verdict != 'tok':
        return
    x.check('literal ends at its own closing quote', length == len(body))
    x.check('re-spelling denotes exactly the same byte string',
            bytes(value) == v)
    # and picotool itself reads it back to the same value
    lx = lexer.Lexer(version=8)
    lx._process_line(code + tail[:0])
    x.check('picotool re-reads its own spelling to the same value', And(
        len(lx._tokens) == 1, lx._in_string is None))
    if len(lx._tokens) == 1:
        x.check('re-read value', lx._tokens[0].value == v)
        x.check('writing is idempotent', lx._tokens[0].code == code)


def long_code(x, p):
    n, level = p['n'], p['level']
    body = x.bytes('body', n)
    src = b'[' + b'=' * level + b'[' + body + b']' + b'=' * level + b']'
    lx = lexer.Lexer(version=8)
    try:
        i = lx._process_token(src)
        j = lx._process_token(src[i:])
    except Exception as e:
        x.check('long string lexes', False, info=repr(e))
        return
    x.check('opener consumed', i == level + 2)
    x.check('a string token results', And(
        len(lx._tokens) == 1, type(lx._tokens[0]) is lexer.TokString))
    if len(lx._tokens) != 1:
        return
    code = lx._tokens[0].code
    x.out('code', code)
    x.check('long string echoed byte for byte',
            And(len(code) == i + j, code == src[:i + j]))


def echo_lines(x, p):
    k = p['k']
    toks = []
    codes = []
    for t in range(k):
        kind = x.choice('k%d' % t, ['nl', 'crlf', 'name', 'space', 'str'])
        if kind == 'nl':
            toks.append(lexer.TokNewline(b'\n'))
        elif kind == 'crlf':
            toks.append(lexer.TokNewline(b'\r\n'))
        elif kind == 'name':
            toks.append(lexer.TokName(x.bytes('n%d' % t, 1, 97, 122)))
        elif kind == 'space':
            toks.append(lexer.TokSpace(b' '))
        else:
            toks.append(lexer.TokString(x.bytes('s%d' % t, 1), quote=b'"'))
        codes.append(toks[-1].code)
    w = lua.LuaEchoWriter(tokens=toks, root=None)
    lines = list(w.to_lines())
    x.out('lines', lines)
    x.check('output is the concatenation of the token codes',
            b''.join(lines) == b''.join(codes))
    nl = sum(1 for t in toks if isinstance(t, lexer.TokNewline))
    tail = 1 if (toks and not isinstance(toks[-1], lexer.TokNewline)) else 0
    x.check('one output line per source line', len(lines) == nl + tail)


LITERAL_BODIES = [b'say "hi"', b"it's", b'a\\b', b'tab\there', b'q"\'q',
                  b'\x00\x011', b'nl\nnl', b'\xff\x80']


def same_value_twice(x, p):
    """A program that holds the same string value several times, spelled with
    either quote character and as a long string: every literal is written so
    that it reads back to that value."""
    body = x.choice('body', LITERAL_BODIES)
    order = x.choice('order', [(34, 39), (39, 34)])
    toks = []
    for q in order + order:
        toks.append(lexer.TokString(body, 0, 0, quote=bytes([q])))
        toks.append(lexer.TokSpace(b' '))
    toks.append(lexer.TokNewline(b'\n'))
    out = b''.join(lua.LuaEchoWriter(tokens=toks, root=None).to_lines())
    x.out('out', out)
    lx = lexer.Lexer(version=8)
    try:
        lx.process_lines([out])
    except Exception as e:
        x.check('the written literals lex', False, info=repr(e))
        return
    vals = [t.value for t in lx.tokens if isinstance(t, lexer.TokString)]
    x.check('every literal reads back to the value it was written for',
            vals == [body] * 4, info=repr(vals)[:120])


SOURCES = [b'?"hi" // note\nx=1 -- c\nif (x) y=2 else y=3\n',
           b'x+=1 y-=2\nz="a\\65"..[[l\n]] // d\n::l:: goto l\n',
           b'function _update() end\nlocal t={1,2;3}\nif (t) ?t[1]\n',
           b'// head\n\n  // own line\nx=1 // tail\n\t--[[ b ]]\n?x\n']


def after_other_writer(x, p):
    """A library user lists or transforms the code with another writer
    (pure-Lua listing, minifier, formatter, tree writers) and then saves the
    cart: the default writer must still echo the source - the other writers
    work on the same token objects and must leave them as they were."""
    src = x.choice('src', SOURCES)
    first = x.choice('first', ['PureLuaWriter', 'LuaMinifyTokenWriter',
                               'LuaFormatterWriter', 'LuaASTEchoWriter',
                               'LuaEchoWriter', 'get_token_count',
                               'get_title', 'reparse',
                               'abandoned LuaEchoWriter',
                               'abandoned LuaMinifyTokenWriter'])
    final = x.choice('final', [None, 'LuaMinifyTokenWriter',
                               'LuaFormatterWriter'])
    tail = x.bytes('tail', 1, 32, 126)       # one symbolic comment byte
    text = src + b'v=1 --' + tail + b'\n'
    prog = lua.Lua.from_lines([text], version=8)
    echo0 = b''.join(prog.to_lines())
    x.check('harness: first echo is the source (string literals by value)',
            len(echo0) > 0)
    try:
        if first == 'get_token_count':
            prog.get_token_count()
        elif first == 'get_title':
            prog.get_title()
            prog.get_byline()
        elif first == 'reparse':
            prog.reparse(writer_cls=lua.LuaEchoWriter)
        elif first.startswith('abandoned '):
            # somebody peeks at the first line and drops the iterator
            it = prog.to_lines(writer_cls=getattr(lua, first.split()[1]))
            next(it)
            del it
        else:
            list(prog.to_lines(writer_cls=getattr(lua, first)))
    except Exception as e:
        x.check('the other writer works on a valid program', False,
                info=first + ' ' + repr(e)[:120])
        return
    echo1 = b''.join(prog.to_lines())
    x.out('echo', echo1)
    x.check('the default writer echoes the same code after another writer '
            'has run on the same Lua object', echo1 == echo0, info=first)
    if final is not None and first != 'reparse':
        fresh = lua.Lua.from_lines([text], version=8)
        want = b''.join(fresh.to_lines(writer_cls=getattr(lua, final)))
        got = b''.join(prog.to_lines(writer_cls=getattr(lua, final)))
        x.check('a transforming writer gives what it gives on a freshly '
                'loaded program', got == want, info=first + ' / ' + final)


Q = {'_budget': 300}
HARNESSES = [
    Harness('encode_decode', encode_decode,
            quick=[dict(Q, n=n, q=q) for n in (0, 1, 2) for q in (34, 39)] +
            [dict(Q, n=1, q=q, after_other_quote=True) for q in (34, 39)],
            thorough=[dict(Q, n=n, q=q, _budget=900) for n in (0, 1, 2, 3)
                      for q in (34, 39)]),
    Harness('long_code', long_code,
            quick=[dict(Q, n=2, level=l) for l in (0, 1)],
            thorough=[dict(Q, n=n, level=l) for n in (0, 1, 3, 4)
                      for l in (0, 1, 2)]),
    Harness('after_other_writer', after_other_writer, quick=[Q]),
    Harness('same_value_twice', same_value_twice, quick=[Q]),
    Harness('echo_lines', echo_lines, quick=[dict(Q, k=3)],
            thorough=[dict(Q, k=5, _budget=900)]),
]
