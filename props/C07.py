"""C07 - the lexer agrees with the PICO-8/Lua lexical grammar (kinds, extents,
values, positions); differential *step* against ref/lualex.py from an
arbitrary lexer state over a fully symbolic buffer."""
from symx.api import Harness
from symx import hx
from symx.hx import And, Or, Not, Ite
from ref import lualex as R
from pico8.lua import lexer

ENCODED = ['pico8.lua.lexer._TOKEN_MATCHERS (live table)',
           'pico8.lua.lexer.Lexer._process_token',
           'pico8.lua.lexer.Lexer._process_line',
           'pico8.lua.lexer.TokNumber.value',
           'pico8.lua.lexer.Token.__init__ (positions)']
ASSUMPTIONS = [
    'reduction (hand): tokenisation of a chunk is the iteration of the step '
    'function; the step lemma is proved for every lexer mode and every '
    'buffer of exactly N bytes (the rest of the chunk), N = 0..bound',
    'ref/lualex.py states the dialect grammar; where Lua 5.2 and PICO-8 may '
    'differ it abstains (exponent "+", hex "p" exponents, \\z, \\u, decimal '
    'escapes > 255, control bytes, raw line breaks in quoted strings, '
    '"--[=[" long comments, numerals glued to letters or dots)',
    'line/column rule: a line ends at LF (picotool and PICO-8 .p8 files '
    'use LF or CRLF)',
]
OUTSIDE = ['chunks longer than the bound: tokens longer than N bytes whose '
           'tail matters; the final double rounding inside CPython float()']

KIND_CLS = {'space': lexer.TokSpace, 'newline': lexer.TokNewline,
            'comment': lexer.TokComment, 'number': lexer.TokNumber,
            'label': lexer.TokLabel, 'keyword': lexer.TokKeyword,
            'symbol': lexer.TokSymbol, 'name': lexer.TokName,
            'string': lexer.TokString}


def impl_mode(lx):
    if lx._in_string is not None:
        return ('string', lx._in_string_delim[0])
    if lx._in_multiline_comment is not None:
        return ('comment',)
    if lx._in_multiline_string is not None:
        return ('long', len(lx._in_multiline_string_delim))
    return ('normal',)


def count_pos(buf, i, line, col):
    """Position after buf[:i]: a line ends at LF, at CRLF (once) and at a
    bare CR (the lexer itself makes a bare CR a line-end token)."""
    n = len(buf)
    for k in range(i):
        if k + 1 < n:
            brk = Or(buf[k] == 10, And(buf[k] == 13, buf[k + 1] != 10))
        else:
            brk = Or(buf[k] == 10, buf[k] == 13)
        if brk:
            line = line + 1
            col = 0
        else:
            col = col + 1
    return line, col


def known_sigs(buf, n):
    """Signatures (over the input buffer) of recorded/fixed findings."""
    sig = {}
    # keyword directly followed by a glyph byte (>= 0x80)
    conds = []
    for kw in R.KEYWORDS:
        if len(kw) < n:
            conds.append(And(R.startswith(buf, n, 0, kw),
                             buf[len(kw)] >= 128))
    sig['C07-kw-then-glyph'] = Or(*conds)
    # bare CR inside a line comment
    cr = Or(*[buf[k] == 13 for k in range(2, n)]) if n > 2 else False
    starts = False
    if n >= 2:
        starts = Or(And(buf[0] == 45, buf[1] == 45),
                    And(buf[0] == 47, buf[1] == 47))
    sig['C07-cr-in-line-comment'] = And(starts, cr)
    return sig


def step(x, p):
    n = p['n']
    mode = tuple(p['mode'])
    acc = [bytes(a, 'latin-1') for a in p.get('acc', [])]
    buf = x.bytes('buf', n)
    if p.get('pre'):
        # a concrete opening + symbolic rest: reaches tokens longer than the
        # fully symbolic bound (labels, long numerals, long brackets)
        buf = p['pre'].encode('latin-1') + buf
        n = len(buf)
    line0 = x.int('line', 0, 1000)
    col0 = x.int('col', 0, 1000)
    sline = x.int('sline', 0, 1000)
    scol = x.int('scol', 0, 1000)
    lx = lexer.Lexer(version=8)
    lx._cur_lineno = line0
    lx._cur_charno = col0
    if mode[0] == 'string':
        lx._in_string = list(acc)
        lx._in_string_delim = bytes([mode[1]])
        lx._in_string_lineno = sline
        lx._in_string_charno = scol
    elif mode[0] == 'comment':
        lx._in_multiline_comment = [b'--[['] + list(acc)
        lx._in_multiline_comment_lineno = sline
        lx._in_multiline_comment_charno = scol
    elif mode[0] == 'long':
        lx._in_multiline_string = list(acc)
        lx._in_multiline_string_delim = b'=' * mode[1]
        lx._in_multiline_string_lineno = sline
        lx._in_multiline_string_charno = scol
    fresh = len(acc) == 0
    ref = R.step(mode, buf, fresh)
    verdict, kind, length, value, mode2 = ref
    x.tag('%s/%s' % (verdict, kind))
    raised = None
    i = None
    try:
        i = lx._process_token(buf)
    except Exception as e:
        raised = e
    if verdict == 'abstain':
        k = R.number_before_concat(buf, n) if mode[0] == 'normal' else None
        if k is not None and raised is None:
            # the reference does not decide between "malformed number" and
            # "numeral, then .."; either way no token ends between the dots
            x.tag('numeral directly before ..')
            x.out('i', i)
            x.check('a numeral directly followed by .. is refused or ends '
                    'before the two dots', Or(i == 0, And(
                        i == k, len(lx._tokens) == 1)))
            if i == k and len(lx._tokens) == 1:
                x.check('numeral before .. is a number token',
                        type(lx._tokens[0]) is lexer.TokNumber)
        return
    sig = known_sigs(buf, n) if mode[0] == 'normal' else {}
    if raised is not None:
        x.check('step does not raise on dialect input', False, known=sig,
                info=repr(raised))
        return
    x.out('i', i)
    toks = lx._tokens
    x.out('ntok', len(toks))
    if verdict == 'reject':
        x.check('nothing consumed where no dialect token starts', i == 0,
                known=sig)
        return
    accb = b''.join(acc)
    if verdict == 'more':
        x.check('multi-line construct consumes the whole chunk', i == n,
                known=sig)
        x.check('no token before the construct closes', len(toks) == 0,
                known=sig)
        x.check('mode kept', impl_mode(lx) == mode2, known=sig)
        if i == n:
            l1, c1 = count_pos(buf, n, line0, col0)
            x.check('line counter after the chunk', lx._cur_lineno == l1,
                    known=sig)
            x.check('column counter after the chunk', lx._cur_charno == c1,
                    known=sig)
        if i == n and len(toks) == 0 and impl_mode(lx) == mode2:
            if mode[0] == 'string':
                got = b''.join(lx._in_string)
                x.check('decoded string bytes so far',
                        got == accb + bytes(value), known=sig)
            elif mode[0] == 'comment':
                got = b''.join(lx._in_multiline_comment)
                x.check('comment text so far', got == b'--[[' + accb + buf,
                        known=sig)
            else:
                got = b''.join(lx._in_multiline_string)
                x.check('long string bytes so far',
                        got == accb + bytes(value), known=sig)
        return
    # verdict == 'tok'
    x.check('token extent (longest match)', i == length, known=sig)
    if not (i == length):
        return
    l1, c1 = count_pos(buf, length, line0, col0)
    x.check('line counter after the token', lx._cur_lineno == l1, known=sig)
    x.check('column counter after the token', lx._cur_charno == c1,
            known=sig)
    x.check('lexer mode after the token', impl_mode(lx) == mode2, known=sig)
    if kind in ('open-quote', 'open-long', 'open-comment'):
        x.check('opener emits no token yet', len(toks) == 0, known=sig)
        if impl_mode(lx) == mode2:
            if kind == 'open-quote':
                st = (lx._in_string_lineno, lx._in_string_charno)
            elif kind == 'open-long':
                st = (lx._in_multiline_string_lineno,
                      lx._in_multiline_string_charno)
            else:
                st = (lx._in_multiline_comment_lineno,
                      lx._in_multiline_comment_charno)
            x.check('start position of the multi-line token recorded',
                    And(st[0] == line0, st[1] == col0), known=sig)
        return
    x.check('exactly one token emitted', len(toks) == 1, known=sig)
    if len(toks) != 1:
        return
    tok = toks[0]
    x.check('token kind', type(tok) is KIND_CLS[kind], known=sig,
            info='%s vs %s' % (type(tok).__name__, kind))
    if type(tok) is not KIND_CLS[kind]:
        return
    if mode[0] == 'normal':
        x.check('token position = counters before the token',
                And(tok._lineno == line0, tok._charno == col0), known=sig)
        x.check('token text = source extent', tok._data == buf[:length],
                known=sig)
        x.out('data', tok._data)
    else:
        x.check('token position = start of the multi-line token',
                And(tok._lineno == sline, tok._charno == scol), known=sig)
        if mode[0] == 'comment':
            x.check('comment text', tok._data == b'--[[' + accb +
                    buf[:length], known=sig)
        else:
            body = accb + bytes(value)
            if mode[0] == 'long':
                body = body[R.newline_skip(body, len(body)):]
            x.check('decoded string bytes', tok.value == body, known=sig)
            x.out('value', tok.value)
            if mode[0] == 'long':
                x.check('long bracket level kept',
                        tok._multiline_quote == b'=' * mode[1], known=sig)
            else:
                x.check('quote kind kept', tok._quote == bytes([mode[1]]),
                        known=sig)


def gen_token(x, tag, fam):
    """A token of family fam built from the grammar: (source text, class,
    decoded value or None)."""
    b = x.bytes(tag, 1)
    c = b[0]
    if fam[0] == 'long':
        x.assume(And(c != 93, c != 10, c != 13))
        eq = b'=' * fam[1]
        return (b'[' + eq + b'[' + b + b']' + eq + b']', lexer.TokString, b)
    if fam[0] == 'longnl':
        # a long string that spans a line end
        x.assume(And(c != 93, c != 10, c != 13))
        eq = b'=' * fam[1]
        return (b'[' + eq + b'[' + b + b'\n' + b + b']' + eq + b']',
                lexer.TokString, b + b'\n' + b)
    if fam[0] == 'longblank':
        # ... with a blank line inside
        x.assume(And(c != 93, c != 10, c != 13))
        eq = b'=' * fam[1]
        return (b'[' + eq + b'[' + b + b'\n\n' + b + b']' + eq + b']',
                lexer.TokString, b + b'\n\n' + b)
    if fam[0] == 'blockblank':
        x.assume(And(c != 93, c != 10, c != 13))
        return (b'--[[' + b + b'\n\n' + b + b']]', lexer.TokComment, None)
    if fam[0] == 'block':
        x.assume(c != 93)
        return (b'--[[' + b + b']]', lexer.TokComment, None)
    if fam[0] == 'quoted':
        q = bytes([fam[1]])
        x.assume(And(c != fam[1], c != 92, c != 10, c != 13))
        return (q + b + q, lexer.TokString, b)
    if fam[0] == 'name':
        x.assume(And(c >= 97, c <= 122))
        return (b'v' + b, lexer.TokName, None)
    x.assume(And(c >= 48, c <= 57))
    return (b'1' + b, lexer.TokNumber, None)


FAMILIES = [('long', 0), ('long', 1), ('long', 2), ('longnl', 0),
            ('longnl', 1), ('longblank', 0), ('blockblank',), ('block',), ('quoted', 34), ('quoted', 39),
            ('name',), ('number',)]


def sequence(x, p):
    """Two tokens in a row, each built from the grammar (long strings of
    different levels, block comments, both quote kinds, a name, a number):
    the lexer must read the second one as if the first had never been there
    - nothing learnt while reading one token may leak into the next.  Fed as
    one chunk and line by line."""
    glued = p.get('glued', False)
    if glued:
        # a keyword written directly after a numeral (x=1or 2): Lua calls it
        # a malformed number, picotool reads numeral, keyword; the reference
        # abstains.  Under either reading the word is never a *name*.
        fa = ('number',)
        ta, ca, va = gen_token(x, 'a', fa)
        kw = x.choice('kw', [b'or', b'and', b'then', b'do', b'end', b'not',
                             b'if', b'until', b'else'])
        tb, cb, vb = kw, lexer.TokKeyword, None
        sep = b''
        text = ta + tb + b' \n'
    else:
        fa = x.choice('A', FAMILIES)
        fb = x.choice('B', FAMILIES)
        sep = x.choice('sep', [b' ', b'\n'])
        ta, ca, va = gen_token(x, 'a', fa)
        tb, cb, vb = gen_token(x, 'b', fb)
        text = ta + sep + tb + b'\n'
    for chunking in ('whole', 'lines'):
        lx = lexer.Lexer(version=8)
        try:
            if chunking == 'whole':
                lx.process_lines([text])
            else:
                lx.process_lines(text.splitlines(True))
            toks = lx.tokens
        except Exception as e:
            if not glued:
                x.check('a sequence of two dialect tokens lexes (%s)' %
                        chunking, False, info=repr(e))
            continue
        sig = [t for t in toks if not isinstance(
            t, (lexer.TokSpace, lexer.TokNewline))]
        x.check('two tokens, of the kinds written (%s)' % chunking, And(
            len(sig) == 2, type(sig[0]) is ca if len(sig) == 2 else False,
            type(sig[1]) is cb if len(sig) == 2 else False))
        if len(sig) != 2:
            continue
        for t, v, src in ((sig[0], va, ta), (sig[1], vb, tb)):
            if v is not None:
                x.check('decoded string value (%s)' % chunking, t.value == v)
            else:
                x.check('token text = source extent (%s)' % chunking,
                        t.code == src)
        x.out('n-' + chunking, len(toks))


def number_value(x, p):
    """TokNumber.value for hex / binary literals with fractions: exact
    rational comparison (the float operations involved are exact for these
    sizes)."""
    base = p['base']
    ni, nf = p['ni'], p['nf']
    lo = ord('0')
    digs = x.bytes('d', ni + nf)
    for k in range(ni + nf):
        c = digs[k]
        if base == 16:
            x.assume(R.is_hexdigit(c))
        else:
            x.assume(R.is_bindigit(c))
    prefix = x.choice('prefix', [b'0x', b'0X'] if base == 16 else
                      [b'0b', b'0B'])
    text = prefix + digs[:ni]
    if nf:
        text = text + b'.' + digs[ni:]
    lx = lexer.Lexer(version=8)
    i = lx._process_token(text)
    x.check('literal is one number token', And(
        i == len(text), len(lx._tokens) == 1))
    if not (i == len(text) and len(lx._tokens) == 1):
        return
    tok = lx._tokens[0]
    x.check('kind number', type(tok) is lexer.TokNumber)
    v = tok.value
    num = 0
    for k in range(ni + nf):
        num = num * base + hx.narrow(x, R.hexval(digs[k]), 0, base - 1)
    den = base ** nf
    x.check('numeric value = sum of digit * base^position',
            hx.rat_eq(v, num, den))


def modes(n, budget=200):
    out = []
    out.append({'mode': ['normal'], 'n': n, '_budget': budget})
    return out


def all_modes(n, budget=300):
    out = [{'mode': ['normal'], 'n': n, '_budget': budget}]
    for q in (34, 39):
        out.append({'mode': ['string', q], 'n': n, '_budget': budget})
        out.append({'mode': ['string', q], 'n': n, 'acc': ['ab'],
                    '_budget': budget})
    out.append({'mode': ['comment'], 'n': n, '_budget': budget})
    out.append({'mode': ['comment'], 'n': n, 'acc': ['x]'],
                '_budget': budget})
    for lvl in (0, 1, 2):
        out.append({'mode': ['long', lvl], 'n': n, '_budget': budget})
        out.append({'mode': ['long', lvl], 'n': n, 'acc': ['x]'],
                    '_budget': budget})
    return out


QUICK = []
for _n in (0, 1, 2, 3):
    QUICK += all_modes(_n)
QUICK += [{'mode': ['normal'], 'n': 4, '_budget': 300},
          {'mode': ['string', 34], 'n': 4, '_budget': 300}]
PRE_Q = [('::', 4), ('::a', 3), ('::_1', 2), ('0x', 3), ('0x1.', 2), ('0b', 3),
         ('1e', 2), ('1.5e', 2), ('12', 2), ('.5', 2), ('--[', 3), ('[=', 3),
         ('[[', 2), ('..', 2), ('>>', 2), ('<<', 2), ('if', 2), ('end', 2),
         ('\x80', 2), ('a.', 2), ('//', 2), ('!', 1), ('^^', 1), ('~', 1)]
QUICK += [{'mode': ['normal'], 'pre': a, 'n': b, '_budget': 300}
          for a, b in PRE_Q]
THOROUGH = [{'mode': ['normal'], 'pre': a, 'n': b + 1, '_budget': 900}
            for a, b in PRE_Q]
for _n in (0, 1, 2, 3, 4, 5):
    THOROUGH += all_modes(_n, 900)
THOROUGH += [{'mode': ['normal'], 'n': 6, '_budget': 1800}]

QUICK += [{'mode': ['long', 0], 'pre': a, 'n': 3, '_budget': 300}
          for a in ('\n', '\r', '\r\n', '\n\r', 'a\n')]
QUICK += [{'mode': ['long', 1], 'pre': '\n\n', 'n': 3, '_budget': 300}]
HARNESSES = [
    Harness('sequence', sequence, quick=[{'_budget': 600},
                                         {'_budget': 600, 'glued': True}]),
    Harness('step', step, quick=QUICK, thorough=THOROUGH),
    Harness('number_value', number_value,
            quick=[{'base': 16, 'ni': 2, 'nf': 2}, {'base': 2, 'ni': 3,
                                                   'nf': 2},
                   {'base': 16, 'ni': 1, 'nf': 0},
                   {'base': 16, 'ni': 0, 'nf': 1},
                   {'base': 2, 'ni': 0, 'nf': 2}],
            thorough=[{'base': 16, 'ni': a, 'nf': b} for a, b in (
                (1, 0), (2, 0), (4, 0), (1, 1), (2, 2), (3, 1), (0, 1),
                (0, 3))] +
                     [{'base': 2, 'ni': a, 'nf': b} for a, b in (
                         (1, 0), (8, 0), (1, 1), (8, 8), (0, 1), (0, 8))]),
]
