"""C08 - the parser consumes every valid program entirely and builds the tree
it denotes: differential against ref/luaparse.py on token strings whose kinds
are symbolic (the solver chooses the program and its layout)."""
from symx.api import Harness
from symx import hx
from symx.hx import And, Or, Not
from ref import luaparse as RP
from props import symtok as ST
from props.astskel import Skel
from pico8.lua import parser, lexer

ENCODED = ['pico8.lua.parser.Parser (all of _accept/_expect/_chunk/_stat/'
           '_laststat/_exp*/_prefixexp*/_args/_funcbody/_tableconstructor/'
           '_field/process_tokens)']
ASSUMPTIONS = [
    'programs are token strings over the full alphabet of token kinds (two '
    'names, ?, number, string, label, 22 keywords, 45 symbols, space, '
    'newline, comment); spellings beyond the kind do not influence parsing',
    'ref/luaparse.py states the dialect grammar (Lua 5.2 manual section 9 + '
    'PICO-8 short-if, ?, compound assignment, operators); when it rejects, '
    'no claim is made here (C09 covers partially parsed input)',
    'expression trees are compared as operators/operands in source order '
    '(the property does not ask for precedence)',
]
OUTSIDE = ['programs with more free tokens than the bound; nesting deeper '
           'than the contexts']

ALPHA = ST.make_alphabet()
REUSE = [False]


def sig_kinds(toks, names):
    return Or(*[t.is_(names) for t in toks]) if toks else False


def compare(x, toks, sig):
    vs = ST.views(toks)
    ref = None
    try:
        ref = RP.parse(vs)
    except RP.Reject as e:
        x.tag('ref rejects')
        return None
    except RP.Abstain as e:
        x.tag('ref abstains')
        return None
    x.tag('ref accepts')
    p = parser.Parser(version=8)
    if REUSE[0]:
        # the Parser object has parsed another program before (Lua objects
        # are updated in place: update_from_lines, reparse): nothing of the
        # earlier parse may influence this one
        p.process_tokens(ctx_tokens(b'\n  -- c\n\tq = { 1,\n 2 } -- d\n\n'
                                    b'if (q) r=1 else r=2\n  ?q\n'))
    try:
        p.process_tokens(toks)
    except Exception as e:
        x.check('every program of the dialect is accepted', False,
                known=sig, info=repr(e)[:120])
        return None
    root = p.root
    rest_ok = True
    for k in range(root.end_pos, len(toks)):
        if not vs[k].is_(RP.TRIVIA):
            rest_ok = False
    x.check('the program is consumed to its last token', rest_ok, known=sig)
    if not rest_ok:
        return None
    try:
        got = Skel(toks).chunk(root)
    except Exception as e:
        x.check('syntax tree is well formed', False, known=sig,
                info=repr(e)[:120])
        return None
    x.out('skeleton', got)
    x.check('syntax tree = the tree the program denotes', got == ref,
            known=sig, info='impl=%r ref=%r' % (got, ref))
    return p


def known(toks):
    return {}


def kinds(x, p):
    REUSE[0] = bool(p.get('reuse'))
    k = p['k']
    toks = ST.tokens(x, k, ALPHA)
    compare(x, toks, known(toks))


def ctx_tokens(spec):
    """Concrete context tokens from a compact source string."""
    lx = lexer.Lexer(version=8)
    lx.process_lines([spec])
    return lx.tokens


def context(x, p):
    """Concrete prefix/suffix around a hole of k symbolic tokens, with a
    symbolic trivia token in every gap of the context."""
    REUSE[0] = bool(p.get('reuse'))
    pre = ctx_tokens(p['pre'].encode('latin-1'))
    post = ctx_tokens(p['post'].encode('latin-1'))
    hole = ST.tokens(x, p['k'], ALPHA)
    triv = [e for e in ALPHA if e[0] in ('space', 'newline', 'comment')]
    toks = []
    g = 0
    for part in (pre, hole, post):
        for t in part:
            toks.append(t)
        # a symbolic trivia token (space / newline / comment) after the part
        g += 1
        if g == 3 and not p.get('tail_gap', True):
            continue                # the input ends with its last code token
        kind = x.int('gap%d' % (g - 1), 0, len(triv) - 1)
        if x.symbolic:
            toks.append(ST.SymTok(kind, 0, triv))
        else:
            toks.append(ST.real_token(triv[kind]))
    compare(x, toks, known(toks))


def seeds(x, p):
    """Concrete programs that use every statement and expression form."""
    REUSE[0] = bool(p.get('reuse'))
    toks = ctx_tokens(p['src'].encode('latin-1'))
    x.out('n', len(toks))
    compare(x, toks, known(toks))


EVERY = [
    'do local x,y=1,2 end\nwhile a<b do a=a+1 end\nrepeat a-=1 until a<=0\n',
    'if a then b() elseif c then d() else e() end\nif (f) g=1 h=2 else i=3\nj=4\n',
    'for i=1,10,2 do break end\nfor k,v in pairs(t) do goto l end\n::l::\n',
    'function m.n.o:p(q,r,...) return q,r,... end\nlocal function s() end\n'
    'local u=function(...) end\n',
    't={1,2;3,[4]=5,x=6,f(),}\nt[1].a.b["c"]:d(e){f}"g":h()\n',
    'x=-a+not b..#c^d*e/f%g\\h and i or j~=k!=l==m<n>o<=p>=q\n',
    'x=a&b|c^^d<<e>>f>>>g<<>h>><i\ny=~a+@b+%c+$d\nz+=1 z..=2 z%=3\n',
    'return\n', 'return f(a)(b)[c].d, (e), ((f)), {g}, "h", 1, nil, true, '
    'false, ...\n', ';;a=1;;b=2;\n', 'a.b, c[d], e = f, g\n',
    'x=function() return function() end end\n',
    'if a then if b then c() end else d() end\n',
    'f"s" f[[s]] f{} f() f(a,b) a:b() a:b"s" a:b{} \n',
    # a binary expression in every expression position
    'for i=a+b,c+d,e*f do end\nfor k in a+b,c..d do end\nwhile a+b do end\n'
    'repeat until a+b\nif a+b then elseif c+d then end\nif (a+b) c=d+e\n',
    'x=t[a+b] f(a+b,c*d) t={a+b,[c+d]=e+f,g=h+i} local y,z=a+b,c+d\n'
    'x,y=a+b,c+d x+=a+b\nreturn a+b,c+d\n',
    'x=-a+b x=not a+b x=#a+b x=(a+b)+c x=f(a)+b x=a.b+c x=a[b]+c\n',
    # string literals that spell a constant; a short if that ends the
    # then-block of a long if whose else follows on a later line
    'x="nil" y={"true",\'false\'} z=type(v)=="nil" w=[[nil]]\n',
    'if a then\n if (b) x=1\nelse\n y=2\nend\nif a then\n if (b) x=1\n'
    'elseif c then\n y=2\nend\n',
    # statements that begin with a parenthesised prefix expression
    '(f or g)(x)\n("abc"):rep(3)\n(t).n=5 (t)[1],(u).v=1,2\n'
    '(function() end)()\ndo (a)() end\n',
    # the ? print shorthand: line scoped, any argument list
    '?x,y\nz=1\n', '?"s"', '? "a",1+2,f(x) -- c\nz=1\n',
    'if (a) ?x\n?y,z --c\nif a then ?x\nend\nx=1 ?x\n',
]
Q = {'_budget': 400}
CONTEXTS = [
    ('?', '\nn=1\n'), ('if (n) ', '\nn=1\n'), ('do ', ' end\n'), ('function f() ', ' end\n'),
    ('x=1 ', ''), ('while x do ', ' end --c\n'), ('if x then ', ' else y=1 end\n'),
    ('t={', '}\n'), ('f(', ')\n'),
]
HARNESSES = [
    Harness('seeds', seeds, quick=[dict(Q, src=s) for s in EVERY] +
            [dict(Q, src=s, reuse=True) for s in EVERY]),
    Harness('kinds', kinds, quick=[dict(Q, k=1), dict(Q, k=2), dict(Q, k=3),
                                   dict(Q, k=2, reuse=True)],
            thorough=[dict(Q, k=1), dict(Q, k=2), dict(Q, k=3),
                      dict(Q, k=4, _budget=3000)]),
    Harness('context', context,
            quick=[dict(Q, pre=a, post=b, k=1) for a, b in CONTEXTS[1:5]] +
                  [dict(Q, pre='if (n) ', post='\nn=1\n', k=2),
                   dict(Q, pre='if (n) ', post='x=1', k=1, tail_gap=False),
                   dict(Q, pre='x=1 ', post='return x', k=1, tail_gap=False),
                   dict(Q, pre='if (n) x=1 else ', post='y=2', k=1,
                        tail_gap=False),
                   dict(Q, pre='if (a) if (b) c=1 ', post='\nd=2\n', k=1),
                   dict(Q, pre='if (a) ', post=' if (b) c=1 else e=3\nd=2\n',
                        k=1),
                   # an operator (or anything else) between two operands,
                   # with a blank, line end or comment on either side of it
                   dict(Q, pre='x=a', post='b\nn=1\n', k=1),
                   dict(Q, pre='while a', post='b do end', k=1,
                        tail_gap=False),
                   dict(Q, pre='?', post='\nn=1\n', k=2),
                   dict(Q, pre='?x', post='n=1\n', k=1),
                   dict(Q, pre='if (n) ?x', post='n=1', k=1, tail_gap=False),
                   dict(Q, pre='do ?', post='end\n', k=2)],
            thorough=[dict(Q, pre=a, post=b, k=2, _budget=1800)
                      for a, b in CONTEXTS] +
                     [dict(Q, pre=a, post=b, k=3, _budget=3000)
                      for a, b in CONTEXTS[:4]]),
]
