"""C09 - luafmt changes only white space, works on every valid program and
never drops code."""
from symx.api import Harness
from symx import hx
from symx.hx import And, Or, Not, Ite
from ref import luaparse as RP
from props import symtok as ST
from props import fmtkernel as K
from props import C08 as P8
from pico8.lua import lua, lexer, parser

ENCODED = ['pico8.lua.lua.LuaASTEchoWriter (all _walk_*, _get_*, to_lines)',
           'pico8.lua.lua.LuaFormatterWriter._get_code_for_spaces',
           'pico8.lua.parser.Parser.process_tokens (may stop early)']
ASSUMPTIONS = [
    'composition (hand): output = concat over tokens of f(gap) + token; '
    'line structure is preserved iff every gap keeps "contains a line end"',
    'programs are token strings of symbolic kind (see C08); the writers '
    'never inspect spellings beyond matching keywords and symbols',
]
OUTSIDE = ['programs with more free tokens than the bound',
           'trivia runs longer than the bound']


def kernel(x, p):
    n = p['n']
    at_start, at_eof = p['at_start'], p['at_eof']
    shape = x.choice('shape', K.lexer_shapes(n, at_eof))
    x.tag(' '.join(shape))
    run = K.make_run(x, shape)
    try:
        out, used = K.run_kernel(run, at_start, at_eof, p['indent'],
                                 p['width'])
    except Exception as e:
        x.check('kernel does not raise', False, info=repr(e))
        return
    x.out('out', out)
    src = b''.join(K.comments_of(run))
    x.check('only white space differs: comments kept, in order, nothing '
            'else appears', bytes(K.nonws(out)) == bytes(K.nonws(src)))
    had_nl = K.has_newline(run)
    out_nl = Or(*[c == 10 for c in out]) if len(out) else False
    blk_nl = False
    for t in run:
        if isinstance(t, lexer.TokComment) and t._data[:4] == b'--[[':
            blk_nl = Or(blk_nl, *[Or(c == 10, c == 13) for c in t._data])
    if not at_eof:
        x.check('a gap keeps its line end (line-scoped constructs keep '
                'their extent)', Implies(had_nl, out_nl))
        x.check('no line end appears in a gap that had none',
                Implies(out_nl, Or(had_nl, blk_nl)))
        if not at_start and len(run) > 0:
            x.check('a non-empty gap between two tokens never becomes empty',
                    len(out) > 0)
    # a line comment is followed by a line end before the next token
    if not at_eof:
        for i, t in enumerate(run):
            if isinstance(t, lexer.TokComment) and t._data[:4] != b'--[[':
                # find the comment text in the output: after its last
                # non-blank byte a line end must come before the output ends
                pass
        last_c = None
        for t in run:
            if isinstance(t, lexer.TokComment):
                last_c = t
        if last_c is not None and last_c._data[:4] != b'--[[':
            x.check('an end-of-line comment cannot swallow the next token',
                    And(len(out) > 0, Or(*[c == 10 for c in out[-(
                        p['indent'] * p['width'] + 1):]])))


def Implies(a, b):
    return Or(Not(a), b)


def paren_prefix(node):
    """Does the tree contain a call/index/field access on a parenthesised
    operator expression (known finding)?"""
    if isinstance(node, parser.Node):
        n = node.__class__.__name__
        if n in ('FunctionCall', 'FunctionCallMethod', 'VarIndex',
                 'VarAttribute'):
            pn = node.exp_prefix.__class__.__name__
            if pn in ('ExpBinOp', 'ExpUnOp', 'VarargDots'):
                return True
        for f in node._fields:
            if paren_prefix(getattr(node, f)):
                return True
        return False
    if isinstance(node, (list, tuple)):
        for it in node:
            if paren_prefix(it):
                return True
    return False


def write_checks(x, toks, sig_extra=None, must_work=False):
    vs = ST.views(toks)
    ref_ok = True
    try:
        RP.parse(vs)
    except (RP.Reject, RP.Abstain):
        # (must_work: forms the reference abstains on but picotool's parser
        # documents as part of its grammar, e.g. "if (c) do ... end")
        ref_ok = must_work
    p = parser.Parser(version=8)
    try:
        p.process_tokens(toks)
    except Exception as e:
        x.tag('parser rejects')
        return                       # load fails: nothing is written
    root = p.root
    complete = True
    for k in range(root.end_pos, len(toks)):
        if not vs[k].is_(RP.TRIVIA):
            complete = False
    sig = dict(P8.known(toks))
    src = b''.join([t.code for t in toks])
    for wcls in (lua.LuaFormatterWriter, lua.LuaASTEchoWriter):
        w = wcls(tokens=toks, root=root, args={'indentwidth': 2})
        raised = None
        out = None
        try:
            out = b''.join(w.to_lines())
        except Exception as e:
            raised = e
        if not complete:
            x.tag('parsed partially')
            x.check('a program that was not parsed to its end is refused, '
                    'never written shortened (%s)' % wcls.__name__,
                    raised is not None)
            continue
        if ref_ok:
            x.tag('valid program')
            x.check('luafmt works on every valid program (%s)' %
                    wcls.__name__, raised is None, known=sig,
                    info=repr(raised)[:100])
        if raised is None:
            x.out('out-' + wcls.__name__, out)
            x.check('only white space differs: every token and comment is '
                    'kept, in order (%s)' % wcls.__name__,
                    bytes(K.nonws(out)) == bytes(K.nonws(src)), known=sig)
            if wcls is lua.LuaASTEchoWriter:
                x.check('the plain tree writer reproduces the source',
                        out == src, known=sig)


def programs(x, p):
    toks = ST.tokens(x, p['k'], P8.ALPHA)
    write_checks(x, toks)


def contexts(x, p):
    pre = P8.ctx_tokens(p['pre'].encode('latin-1'))
    post = P8.ctx_tokens(p['post'].encode('latin-1'))
    hole = ST.tokens(x, p['k'], P8.ALPHA)
    write_checks(x, list(pre) + hole + list(post))


def seeds(x, p):
    """Concrete newer-syntax / degenerate programs."""
    src = p['src'].encode('latin-1')
    lx = lexer.Lexer(version=8)
    lx.process_lines([src])
    x.out('n', len(lx.tokens))
    write_checks(x, lx.tokens, must_work=p.get('must_work', False))
    spelling_check(x, lx.tokens)


def code_tokens(tokens):
    out = []
    for t in tokens:
        if isinstance(t, (lexer.TokSpace, lexer.TokNewline)):
            continue
        if isinstance(t, lexer.TokComment):
            out.append(('comment', bytes(K.nonws(t.code))))
        else:
            out.append((type(t).__name__, bytes(t.code)))
    return out


def spelling_check(x, toks):
    """Token by token: the formatted text lexes to the same tokens with the
    same spelling - white space *inside* a token (a long string that spans
    lines, a quoted string with blanks) is not the formatter's to change;
    comments are compared up to the white space inside them."""
    p = parser.Parser(version=8)
    try:
        p.process_tokens(toks)
        w = lua.LuaFormatterWriter(tokens=toks, root=p.root,
                                   args={'indentwidth': 2})
        out = b''.join(w.to_lines())
        lx2 = lexer.Lexer(version=8)
        lx2.process_lines([out])
    except Exception:
        return          # refusals are judged by write_checks
    x.check('every token keeps its exact spelling, in order',
            code_tokens(lx2.tokens) == code_tokens(toks))
    # line-scoped constructs keep their extent: the formatted text parses to
    # the same tree (statement kinds, nesting, what a short if / ? owns)
    from props.astskel import Skel
    try:
        p2 = parser.Parser(version=8)
        p2.process_tokens(lx2.tokens)
        def skel(ts, root):
            # (token leaves are renumbered among the code tokens, so that
            # the two layouts compare)
            ordinal = {}
            for i, t in enumerate(ts):
                if not isinstance(t, (lexer.TokSpace, lexer.TokNewline,
                                      lexer.TokComment)):
                    ordinal[i] = len(ordinal)

            def renum(v):
                if isinstance(v, bool) or v is None:
                    return v
                if isinstance(v, int):
                    return ordinal.get(v, ('trivia', v))
                if isinstance(v, (list, tuple)):
                    return [renum(e) for e in v]
                return v
            return renum(Skel(ts).chunk(root))
        same = skel(lx2.tokens, p2.root) == skel(toks, p.root)
        whole = all(isinstance(t, (lexer.TokSpace, lexer.TokNewline,
                                   lexer.TokComment))
                    for t in lx2.tokens[p2.root.end_pos:])
    except Exception as e:
        x.check('the formatted text parses', False, info=repr(e)[:120])
        return
    x.check('the formatted text parses to the same tree, completely',
            same and whole)


# (code, fully parsed?, expected formatted text as a function of the width)
CLI_CODES = [
    (b'if a then\nb=1\nend\n', True,
     lambda w: b'if a then\n' + b' ' * w + b'b=1\nend\n'),
    (b'function f()\n\t\tfor i=1,2 do\nx = 1 -- c\n  end\nend', True,
     lambda w: b'function f()\n' + b' ' * w + b'for i=1,2 do\n' +
     b' ' * (2 * w) + b'x = 1  -- c\n' + b' ' * w + b'end\nend\n'),
    (b'if (a) b=1\n?c,d\ne=2\n', True, None),
    (b'x=1\na |= 1\ny=2\n', False, None),
    (b'x=1\nfoo bar\n', False, None),
]


def cli(x, p):
    """`p8tool luafmt [--indentwidth N] [--overwrite] in.p8` end to end:
    argparse wiring, cart reader, formatter, cart writer, over an in-memory
    file system."""
    from props import clikit
    ci = x.choice('code', list(range(len(CLI_CODES))))
    code, valid, expect = CLI_CODES[ci]
    w = x.choice('width', [None, 0, 1, 2, 3, 4, 8])
    overwrite = x.bool('overwrite')
    src = clikit.p8_text(code)
    fs = clikit.MemFS(x, {'/w/in.p8': src})
    argv = ['luafmt']
    if w is not None:
        argv += ['--indentwidth', str(w)]
    if overwrite:
        argv.append('--overwrite')
    argv.append('/w/in.p8')
    rc, exc = clikit.run_main(argv)
    x.out('rc', repr(rc))
    x.out('exc', repr(exc)[:80])
    out_name = '/w/in.p8' if overwrite else '/w/in_fmt.p8'
    if not valid:
        x.tag('not fully parsed')
        x.check('luafmt fails with an error on code it could not parse to '
                'the end', Or(exc is not None, rc != 0))
        x.check('and writes nothing', clikit.changed(fs) == [])
        x.check('the input file keeps its bytes',
                fs.files.get('/w/in.p8') == src)
        return
    x.tag('valid')
    x.check('luafmt succeeds on a valid program',
            And(exc is None, rc == 0), info=repr(exc)[:120])
    if exc is not None or rc != 0:
        return
    x.check('luafmt writes exactly the expected output file',
            clikit.only_changed(fs, out_name))
    if out_name not in fs.files:
        return
    if not overwrite:
        x.check('the input file keeps its bytes',
                fs.files.get('/w/in.p8') == src)
    got = clikit.lua_of(fs.files[out_name])
    x.out('code', got)
    width = 2 if w is None else w
    if expect is not None:
        x.check('indentation = indent width x nesting depth',
                got == expect(width))
    direct = b''.join(lua.Lua.from_lines([code], version=8).to_lines(
        writer_cls=lua.LuaFormatterWriter,
        writer_args={'indentwidth': width}))
    if not direct.endswith(b'\n'):
        direct += b'\n'
    x.check('the file holds what the formatter produced for this width',
            got == direct)
    a = lexer.Lexer(version=8)
    a.process_lines([code])
    b = lexer.Lexer(version=8)
    b.process_lines([got])
    x.check('same code tokens in the written cart',
            [(type(t), t.code) for t in a.tokens if not isinstance(
                t, (lexer.TokSpace, lexer.TokNewline, lexer.TokComment))] ==
            [(type(t), t.code) for t in b.tokens if not isinstance(
                t, (lexer.TokSpace, lexer.TokNewline, lexer.TokComment))])


Q = {'_budget': 600}
KQ = []
for _s in (False, True):
    for _e in (False, True):
        KQ.append(dict(Q, n=1, at_start=_s, at_eof=_e, indent=1, width=2))
        KQ.append(dict(Q, n=2, at_start=_s, at_eof=_e, indent=1, width=2))
SEEDS = ['x=1\na |= 1\ny=2\n', '?x,y\nz=1\n', '', '--c', 'x=1', 't={1,2}',
         'if (a) b=1 c=2\nd=3\n', 'x=1 --c\ny=2', 'a=1;;b=2;',
         'f{1}"s":m()\n', '(f or g)(x)\n', 'y=(-a).b\n', 'z=(a)(b)\n',
         'z=("x"):rep(2)\n', 'z=((a).b)[c]\n', 'z=(...)\n',
         'z=(function() end)()\n', 'z = ( a ) ( b )\n',
         'if (x) a=1 else\nb=2\n', 'if (x) a=1 else', 'a=1;;b=2;\n;;c=3\n',
         'if (x) a=1 else c=3\nb=2\n', 't={1 ,2 ;3 , x=4 ,}\n',
         't={1 -- c\n ,2\n ;\n 3}\n', 'x=1\ry=2\rif (a) b=1\rc=3\r',
         'x=1 -- c\ry=2\r', 'function a.b.c.d:e() end\n']
NO_TAIL = sorted(set(
    '\n'.join(s_.split('\n')[:k]).rstrip() for s_ in P8.EVERY
    for k in range(1, len(s_.split('\n')) + 1)) - set(['']))
HARNESSES = [
    Harness('kernel', kernel, quick=KQ,
            thorough=KQ + [dict(Q, n=3, at_start=False, at_eof=e, indent=1,
                                width=2, _budget=3000) for e in (False,
                                                                 True)]),
    Harness('programs', programs, quick=[dict(Q, k=1), dict(Q, k=2)],
            thorough=[dict(Q, k=1), dict(Q, k=2), dict(Q, k=3,
                                                      _budget=3000)]),
    Harness('contexts', contexts,
            quick=[dict(Q, pre=a, post=b, k=1) for a, b in P8.CONTEXTS[:5]],
            thorough=[dict(Q, pre=a, post=b, k=2, _budget=1800)
                      for a, b in P8.CONTEXTS]),
    Harness('seeds', seeds, quick=[dict(Q, src=s) for s in SEEDS] +
            [dict(Q, src=s, must_work=True) for s in (
                'if (x) do\n y=1\nend\nz=2\n', 'if x do y=1 end\n',
                'if x -- c\n do y=1 else z=2 end')] +
            [dict(Q, src=s) for s in P8.EVERY] +
            # programs that end right after their last token (no final line
            # end, blank or comment): every line of the seed programs as
            # the last line
            [dict(Q, src=s) for s in NO_TAIL] +
            # number spellings, if ... do mixed with then
            [dict(Q, src=s) for s in (
                'x=0xFF+0X1f+0B101+1E3+0xAb.Cd+0b1.1\n',)] +
            [dict(Q, src=s, must_work=True) for s in (
                'if x do y=1 elseif z then w=2 else v=3 end\n',
                'if (c) do\n a=1\nelseif d then\n b=2\nend\n')] +
            # operators that must not be pushed together, blocks inside
            # line-scoped constructs
            [dict(Q, src=s) for s in (
                'a = - -b\nf()\n', 'x=3 - - -z y=- - 1\n',
                'x=not not a y=# #t z=- #t\n', 'x=a - -b c=d .. ...\n',
                'if (x) for i=1,3 do f(i) end\ny=1\n',
                'if (a) do b() end c()\nd()\n',
                '?f(function() return 1 end)\nz=2\n',
                'if (a) while b do c() end else repeat d() until e\nf()\n')] +
            # white space inside tokens
            [dict(Q, src=s) for s in (
                's=[[ab  \n  cd \n]] t="a  b " u=\'  \'\n',
                'do\n s=[==[x \n\n  y\t\n]==]\nend\n',
                'x=1 --[[ c  \n  d ]] y=2 -- e  f  \nz="  "\n')] +
            [dict(Q, src=s.replace(' ', '  --c\n ').replace('\n', ' \n\n'))
             for s in P8.EVERY]),
    Harness('cli', cli, quick=[Q]),
]
