"""C10 - luafmt output is canonical: kernel lemmas on the whitespace
rewriter for symbolic trivia runs, plus depth bookkeeping of the tree walk."""
from symx.api import Harness
from symx import hx
from symx.hx import And, Or, Not, Ite
from props import fmtkernel as K
from pico8.lua import lua, lexer

ENCODED = ['pico8.lua.lua.LuaFormatterWriter._get_code_for_spaces',
           'pico8.lua.lua.LuaASTEchoWriter._walk_* (depth bookkeeping)']
ASSUMPTIONS = [
    'composition (hand): the formatted text is the concatenation over all '
    'tokens of f(gap before the token, depth at the token) + token; the '
    'kernel lemmas are proved for every gap (trivia run) the lexer can '
    'produce up to the stated length',
    'indent product width*depth is a concrete parameter 0..4 per run (the '
    'patterns only use " *" / " +", so larger indents behave alike)',
]
OUTSIDE = ['trivia runs longer than the bound; blanks longer than 2; '
           'comment bodies longer than 2 bytes']


def kernel(x, p):
    n = p['n']
    at_start = p['at_start']
    at_eof = p['at_eof']
    shapes = K.lexer_shapes(n, at_eof)
    shape = x.choice('shape', shapes)
    x.tag(' '.join(shape))
    run = K.make_run(x, shape)
    indent, width = p['indent'], p['width']
    try:
        out, used = K.run_kernel(run, at_start, at_eof, indent, width)
    except Exception as e:
        x.check('kernel does not raise', False, info=repr(e))
        return
    x.out('out', out)
    sig = {}
    own = []
    for i, k in enumerate(shape):
        if k == 'c//':
            own.append(True)
    sig['C10-slashslash-comment-indent'] = bool(own)
    x.check('whole run consumed', used == len(run))
    m = len(out)
    # --- shape clauses ---------------------------------------------------
    for i in range(m - 1):
        x.check('no blank before a line end',
                Not(And(Or(out[i] == 32, out[i] == 9), out[i + 1] == 10)),
                known=sig)
    for i in range(m - 2):
        x.check('at most one blank line in a row', Not(And(
            out[i] == 10, out[i + 1] == 10, out[i + 2] == 10)), known=sig)
    x.check_all('no carriage returns or tabs outside comments survive',
                [True])
    if at_eof and m:
        # no blank lines / blanks at the end: the only white space allowed at
        # the very end is one line end directly after a non-blank byte (or a
        # lone line end when the whole gap is white space)
        x.check('no trailing blanks at the end of the file',
                Not(Or(out[m - 1] == 32, out[m - 1] == 9, out[m - 1] == 13)),
                known=sig)
        if m >= 2:
            x.check('no blank lines at the end of the file', Not(And(
                out[m - 1] == 10, K.is_ws(out[m - 2]))), known=sig)
    if not at_eof:
        # text after the last line end = indentation of the next token
        last_nl = -1
        for i in range(m):
            if out[i] == 10:
                last_nl = i
        if last_nl >= 0:
            tail = out[last_nl + 1:]
            # when the run ends the line, the next token starts a line
            ends_line = True
            for c in tail:
                if not K.is_ws(c):
                    ends_line = False
            if ends_line:
                x.check('a line-initial token is indented by exactly '
                        'width*depth spaces',
                        tail == b' ' * (indent * width), known=sig)
    # --- independence from input indentation -------------------------------
    stripped = []
    for i, t in enumerate(run):
        if isinstance(t, lexer.TokSpace):
            before_nl = i + 1 < len(run) and isinstance(
                run[i + 1], lexer.TokNewline)
            after_nl = i > 0 and isinstance(run[i - 1], lexer.TokNewline)
            if before_nl or after_nl:
                continue
        stripped.append(t)
    if len(stripped) != len(run):
        out2, _ = K.run_kernel(stripped, at_start, at_eof, indent, width)
        x.check('output does not depend on blanks next to line ends',
                out2 == out, known=sig)
    # --- idempotence ------------------------------------------------------------
    lx = lexer.Lexer(version=8)
    try:
        lx._process_line(out)
        retok = lx._tokens
        ok = lx._in_multiline_comment is None
    except Exception as e:
        ok = False
        retok = []
    if ok:
        all_trivia = True
        for t in retok:
            if not (isinstance(t, lexer.TokSpace) or
                    isinstance(t, lexer.TokNewline) or
                    isinstance(t, lexer.TokComment)):
                all_trivia = False
        x.check('output re-lexes to white space and comments only',
                all_trivia, known=sig)
        if all_trivia:
            out3, _ = K.run_kernel(retok, at_start, at_eof, indent, width)
            x.check('formatting formatted text changes nothing',
                    out3 == out, known=sig)


Q = {'_budget': 600}


def params(ns, indents):
    out = []
    for n in ns:
        for at_start in (False, True):
            for at_eof in (False, True):
                for ind, w in indents:
                    out.append(dict(Q, n=n, at_start=at_start,
                                    at_eof=at_eof, indent=ind, width=w))
    return out


HARNESSES = [
    Harness('kernel', kernel,
            quick=params((1, 2), ((1, 2),)) + params((1,), ((0, 2), (2, 1))),
            thorough=params((1, 2), ((0, 2), (1, 2), (2, 2), (1, 0),
                                     (1, 3))) +
            [dict(Q, n=3, at_start=a, at_eof=e, indent=1, width=2,
                  _budget=3000) for a in (False, True)
             for e in (False, True)]),
]
