"""C10 - luafmt output is canonical: kernel lemmas on the whitespace
rewriter for symbolic trivia runs, plus depth bookkeeping of the tree walk."""
from symx.api import Harness
from symx import hx
from symx.hx import And, Or, Not, Ite
from props import fmtkernel as K
from pico8.lua import lua, lexer

ENCODED = ['pico8.lua.lua.LuaFormatterWriter._get_code_for_spaces',
           'pico8.lua.lua.LuaASTEchoWriter._walk_* (depth bookkeeping)']
ASSUMPTIONS = [
    'composition (hand): the formatted text is the concatenation over all '
    'tokens of f(gap before the token, depth at the token) + token; the '
    'kernel lemmas are proved for every gap (trivia run) the lexer can '
    'produce up to the stated length',
    'indent product width*depth is a concrete parameter 0..4 per run (the '
    'patterns only use " *" / " +", so larger indents behave alike)',
]
OUTSIDE = ['trivia runs longer than the bound; blanks longer than 2; '
           'comment bodies longer than 2 bytes']


def kernel(x, p):
    at_start = p['at_start']
    at_eof = p['at_eof']
    if 'shapes' in p:
        shapes = [list(s) for s in p['shapes']]
    else:
        shapes = K.lexer_shapes(p['n'], at_eof)
    shape = x.choice('shape', shapes)
    x.tag(' '.join(shape))
    run = K.make_run(x, shape)
    indent, width = p['indent'], p['width']
    try:
        out, used = K.run_kernel(run, at_start, at_eof, indent, width)
    except Exception as e:
        x.check('kernel does not raise', False, info=repr(e))
        return
    x.out('out', out)
    sig = {}
    own = []
    for i, k in enumerate(shape):
        if k == 'c//':
            own.append(True)
    sig['C10-slashslash-comment-indent'] = bool(own)
    x.check('whole run consumed', used == len(run))
    m = len(out)
    # --- shape clauses ---------------------------------------------------
    for i in range(m - 1):
        x.check('no blank before a line end',
                Not(And(Or(out[i] == 32, out[i] == 9), out[i + 1] == 10)),
                known=sig)
    for i in range(m - 2):
        x.check('at most one blank line in a row', Not(And(
            out[i] == 10, out[i + 1] == 10, out[i + 2] == 10)), known=sig)
    x.check_all('no carriage returns or tabs outside comments survive',
                [True])
    if at_eof and m:
        # no blank lines / blanks at the end: the only white space allowed at
        # the very end is one line end directly after a non-blank byte (or a
        # lone line end when the whole gap is white space)
        x.check('no trailing blanks at the end of the file',
                Not(Or(out[m - 1] == 32, out[m - 1] == 9, out[m - 1] == 13)),
                known=sig)
        if m >= 2:
            x.check('no blank lines at the end of the file', Not(And(
                out[m - 1] == 10, K.is_ws(out[m - 2]))), known=sig)
    if not at_eof:
        # text after the last line end = indentation of the next token
        last_nl = -1
        for i in range(m):
            if out[i] == 10:
                last_nl = i
        if last_nl >= 0:
            tail = out[last_nl + 1:]
            # when the run ends the line, the next token starts a line
            ends_line = True
            for c in tail:
                if not K.is_ws(c):
                    ends_line = False
            if ends_line:
                x.check('a line-initial token is indented by exactly '
                        'width*depth spaces',
                        tail == b' ' * (indent * width), known=sig)
    # --- independence from input indentation -------------------------------
    stripped = []
    for i, t in enumerate(run):
        if isinstance(t, lexer.TokSpace):
            before_nl = i + 1 < len(run) and isinstance(
                run[i + 1], lexer.TokNewline)
            after_nl = i > 0 and isinstance(run[i - 1], lexer.TokNewline)
            # (blanks that end the last line of the file are trailing
            # blanks of a line, too)
            last = at_eof and i == len(run) - 1
            if before_nl or after_nl or last:
                continue
        stripped.append(t)
    glued = False
    for i in range(len(stripped) - 1):
        # removing the blanks between a bare CR and an LF leaves CR LF, which
        # is ONE line end: a program with different line breaks - no claim
        if (isinstance(stripped[i], lexer.TokNewline) and
                stripped[i]._data == b'\r' and
                isinstance(stripped[i + 1], lexer.TokNewline) and
                stripped[i + 1]._data[:1] == b'\n'):
            glued = True
    if len(stripped) != len(run) and not glued:
        out2, _ = K.run_kernel(stripped, at_start, at_eof, indent, width)
        x.check('output does not depend on blanks next to line ends',
                out2 == out, known=sig)
    # --- idempotence ------------------------------------------------------------
    lx = lexer.Lexer(version=8)
    try:
        lx._process_line(out)
        retok = lx._tokens
        ok = lx._in_multiline_comment is None
    except Exception as e:
        ok = False
        retok = []
    if ok:
        all_trivia = True
        for t in retok:
            if not (isinstance(t, lexer.TokSpace) or
                    isinstance(t, lexer.TokNewline) or
                    isinstance(t, lexer.TokComment)):
                all_trivia = False
        x.check('output re-lexes to white space and comments only',
                all_trivia, known=sig)
        if all_trivia:
            out3, _ = K.run_kernel(retok, at_start, at_eof, indent, width)
            x.check('formatting formatted text changes nothing',
                    out3 == out, known=sig)


Q = {'_budget': 600}


def params(ns, indents):
    out = []
    for n in ns:
        for at_start in (False, True):
            for at_eof in (False, True):
                for ind, w in indents:
                    out.append(dict(Q, n=n, at_start=at_start,
                                    at_eof=at_eof, indent=ind, width=w))
    return out


# longer runs of particular interest (blank-line runs with blanks on some of
# the lines, comments between blank lines), blanks and bodies still symbolic
LONG = [['nl', 'sp', 'nl', 'nl'], ['nl', 'nl', 'sp', 'nl'],
        ['nl', 'sp', 'nl', 'sp', 'nl'], ['sp', 'nl', 'sp', 'nl', 'sp', 'nl'],
        ['crlf', 'sp', 'crlf', 'crlf'], ['nl', 'sp', 'nl', 'nl', 'sp'],
        ['nl', 'nl', 'c--', 'nl'], ['nl', 'sp', 'c//', 'nl', 'nl', 'nl'],
        ['sp', 'c--', 'nl', 'sp', 'nl', 'nl', 'sp']]
HARNESSES = [
    Harness('kernel', kernel,
            quick=params((1, 2), ((1, 2),)) + params((1,), ((0, 2), (2, 1))) +
            [dict(Q, shapes=LONG, at_start=a, at_eof=False, indent=1,
                  width=2) for a in (False, True)] +
            [dict(Q, shapes=[s for s in LONG if s[-1] not in ('c--', 'c//')],
                  at_start=False, at_eof=True, indent=1, width=2)],
            thorough=params((1, 2), ((0, 2), (1, 2), (2, 2), (1, 0),
                                     (1, 3))) +
            [dict(Q, n=3, at_start=a, at_eof=e, indent=1, width=2,
                  _budget=3000) for a in (False, True)
             for e in (False, True)]),
]


# --- depth bookkeeping of the tree walk --------------------------------------
from ref import luaparse as RP
from props import symtok as ST
from props import C08 as P8
from pico8.lua import parser as _parser


def depth(x, p):
    """One token per line: the indentation the writer gives each line must be
    indentwidth x (blocks + brackets open at that token)."""
    width = p['width']
    if 'src' in p:
        lx = lexer.Lexer(version=8)
        lx.process_lines([p['src'].encode('latin-1')])
        sig = [t for t in lx.tokens if not isinstance(
            t, (lexer.TokSpace, lexer.TokNewline, lexer.TokComment))]
    else:
        pre = [t for t in P8.ctx_tokens(p['pre'].encode('latin-1'))
               if not isinstance(t, (lexer.TokSpace, lexer.TokNewline))]
        post = [t for t in P8.ctx_tokens(p['post'].encode('latin-1'))
                if not isinstance(t, (lexer.TokSpace, lexer.TokNewline))]
        alpha = ST.make_alphabet(trivia=False)
        sig = pre + ST.tokens(x, p['k'], alpha) + post
    if p.get('layout') == 'lines':
        # keep the program's own lines (needed for short ifs), drop blanks
        # at the start of lines so that the input carries no indentation
        toks = []
        for t in lx.tokens:
            if isinstance(t, lexer.TokSpace) and (
                    not toks or isinstance(toks[-1], lexer.TokNewline)):
                continue
            toks.append(t)
    else:
        toks = []
        for t in sig:
            toks.append(t)
            toks.append(lexer.TokNewline(b'\n'))
    vs = ST.views(toks)
    try:
        sk, depths = RP.parse(vs, want_depths=True)
    except (RP.Reject, RP.Abstain):
        x.tag('not a dialect program')
        return
    # a short if / ? must stay on one line: not representable one token per
    # line, the reference rejects those layouts
    pr = _parser.Parser(version=8)
    try:
        pr.process_tokens(toks)
    except Exception:
        x.tag('parser rejects')
        return
    w = lua.LuaFormatterWriter(tokens=toks, root=pr.root,
                               args={'indentwidth': width})
    try:
        out = b''.join(w.to_lines())
    except Exception as e:
        x.tag('writer raises')
        return
    x.tag('formatted')
    lines = out.split(b'\n')
    x.out('nlines', len(lines))
    if p.get('layout') == 'lines':
        sig_idx = [i for i, t in enumerate(toks) if not isinstance(
            t, (lexer.TokSpace, lexer.TokNewline, lexer.TokComment)) and (
                i == 0 or isinstance(toks[i - 1], lexer.TokNewline))]
    else:
        sig_idx = [i for i in range(0, len(toks), 2)]
    x.check('one output line per token', len(lines) == len(sig_idx) + 1)
    if len(lines) != len(sig_idx) + 1:
        return
    for j, i in enumerate(sig_idx):
        if isinstance(toks[i], lexer.TokComment):
            continue        # the clause is about lines that begin with code
        line = lines[j]
        n = 0
        while n < len(line) and line[n] == 32:
            n += 1
        x.check('line-initial token indented by width x open blocks and '
                'brackets', n == width * depths[i],
                info='token %d: %d spaces, depth %d' % (j, n, depths[i]))


CANON = [
    'do\nx=1\n--[[c]]\nend\nif a then\nb()\n-- c\nelse\nc()\n--[[d]]\nend\n'
    'repeat\nx=1\n-- u\nuntil x\nif (a) b=1 --[[e]]\nif (a) b=1 -- f\n-- last',
    '-- first\nx=1\n\n\n\ny=2 -- t\nfunction f(a,\nb)\nreturn a\nend\n\n',
    'x=1\ny=2',
    '--[[ only ]]\n// comments\n\n-- here\n',
    't={\n1,\n2, -- c\n}\nwhile t do\nt=nil\n// d\nend\n?t\n',
]


def canon(x, p):
    """The property on whole programs: the same program with every line
    given (symbolic) leading and trailing blanks or tabs formats to the same
    text as the tidy one; that text has no line ending in white space, at
    most one blank line in a row, none at the end, and formatting it again
    changes nothing."""
    src = p['src'].encode('latin-1')
    n1 = x.choice('lead.n', [0, 1, 2])
    n2 = x.choice('trail.n', [0, 1, 2])
    lead = x.bytes('lead', n1)
    trail = x.bytes('trail', n2)
    for c in list(lead) + list(trail):
        x.assume(Or(c == 32, c == 9))
    lines = src.split(b'\n')
    messy = b'\n'.join(lead + ln + trail for ln in lines)
    width = p.get('width', 2)

    def fmt(text):
        prog = lua.Lua.from_lines([text], version=8)
        return b''.join(prog.to_lines(writer_cls=lua.LuaFormatterWriter,
                                      writer_args={'indentwidth': width}))
    try:
        tidy = fmt(src)
        out = fmt(messy)
    except Exception as e:
        x.check('luafmt works on the program', False, info=repr(e)[:120])
        return
    x.out('out', out)
    x.check('the output does not depend on blanks at the start or end of '
            'input lines', out == tidy)
    olines = tidy.split(b'\n')
    x.check('no output line ends in white space', not any(
        ln[-1:] in (b' ', b'\t', b'\r') for ln in olines))
    x.check('at most one blank line in a row', b'\n\n\n' not in tidy)
    x.check('no blank line at the end', not tidy.endswith(b'\n\n'))
    try:
        again = fmt(tidy)
    except Exception as e:
        x.check('formatted code formats again', False, info=repr(e)[:120])
        return
    x.check('formatting formatted code changes nothing', again == tidy)


def widths(x, p):
    """One Lua object formatted twice with two indent widths (a user trying
    several --indentwidth values from a script): each output is what a
    freshly loaded program gives for that width."""
    src = LINES.encode('latin-1')
    wa = x.conc(x.int('first_width', 0, 8))
    wb = x.conc(x.int('second_width', 0, 8))
    prog = lua.Lua.from_lines([src], version=8)
    out_a = b''.join(prog.to_lines(writer_cls=lua.LuaFormatterWriter,
                                   writer_args={'indentwidth': wa}))
    out_b = b''.join(prog.to_lines(writer_cls=lua.LuaFormatterWriter,
                                   writer_args={'indentwidth': wb}))
    fresh = lua.Lua.from_lines([src], version=8)
    exp_b = b''.join(fresh.to_lines(writer_cls=lua.LuaFormatterWriter,
                                    writer_args={'indentwidth': wb}))
    x.out('nb', len(out_b))
    x.check('the second formatting uses its own indent width', out_b == exp_b)
    # (first line of the do-block body: "x=1" at depth 1)
    lines = out_b.split(b'\n')
    body = [l for l in lines if l.strip() == b'x=1']
    x.check('a line at depth 1 is indented by the second width',
            len(body) == 1 and body[0] == b' ' * wb + b'x=1')


EVERY = ('do\nlocal x=1\nwhile x do\nx=f(a,{b,[c]=d},t[i])\nend\nrepeat\n'
         'x=x+1\nuntil x\nif a then\nb()\nelseif c then\nd()\nelse\ne()\n'
         'end\nfor i=1,2 do\nbreak\nend\nfor k,v in pairs(t) do\ngoto l\n'
         'end\n::l::\nfunction m.n:o(p,...)\nreturn (p)\nend\nlocal function '
         'q()\nend\ny=function()\nend\nend\n')
LINES = ('if (a) b=1 else b=2\ndo\nx=1\nif (c) d=1\ny=f(1,\n2)\nend\n'
         'function f(a,\nb)\nif (c) d=1 else d=2\nif (e) return\n'
         'for i=1,2 do\nif (g) h() else i()\nz=1\nend\nend\nw=0\n')
# ten blocks deep (indentation beyond 64 columns at width 8)
DEEP = 'do\n' * 10 + 'x=1\n' + 'end\n' * 10
# lines that begin with a semicolon
SEMIS = ('do\nx=1\n;y=2\n;(f)(x)\nwhile x do\n;z=3\nend\nend\n;w=4\n')
# lines after the ? print shorthand (its arguments have no closing bracket)
PRINTS = ('?a\nx=1\ndo\n?"s",1,2\ny=f(1,\n2)\n?b\nif (c) ?d\nz=1\nend\n'
          'function g()\n?e,f\nreturn\nend\n?h\nw=0\n')
HARNESSES.append(
    Harness('depth', depth,
            quick=[dict(Q, src=EVERY, width=2), dict(Q, src=EVERY, width=0),
                   dict(Q, src=LINES, width=2, layout='lines'),
                   dict(Q, src=LINES, width=1, layout='lines'),
                   dict(Q, src=PRINTS, width=2, layout='lines'),
                   dict(Q, src=DEEP, width=8), dict(Q, src=DEEP, width=5),
                   dict(Q, src=SEMIS, width=2, layout='lines'),
                   dict(Q, pre='do ', post=' end', k=1, width=2),
                   dict(Q, pre='x=f(', post=')', k=1, width=3)],
            thorough=[dict(Q, src=EVERY, width=w) for w in range(0, 9)] +
                     [dict(Q, pre=a, post=b, k=2, width=2, _budget=2400)
                      for a, b in P8.CONTEXTS if 'if (n)' not in a]))

# the command line wiring of --indentwidth (shared with C09)
from props import C09 as _C09
HARNESSES.append(Harness('cli', _C09.cli, quick=[Q]))
HARNESSES.append(Harness('widths', widths, quick=[Q]))
HARNESSES.append(Harness('canon', canon,
                         quick=[dict(Q, src=s_) for s_ in CANON]))
