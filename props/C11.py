"""C11 - a failed cart write never damages the file already at the
destination."""
import builtins
import os
import tempfile

from symx.api import Harness
from symx import hx, rt
from symx.hx import And, Or, Not
from pico8.game import file as gfile
from pico8.game.game import Game
from pico8.lua import lua
from props.C04 import FakeReader, FakeWriter, FakeFile, W_, H_

ENCODED = ['pico8.game.file.to_file',
           'pico8.game.formatter.p8.P8Formatter.to_file',
           'pico8.game.formatter.p8png.P8PNGFormatter.to_file']
ASSUMPTIONS = [
    'in-memory file system: open()/os.path.exists/tempfile.TemporaryFile are '
    'replaced by stubs; the temporary stream raises OSError at the k-th '
    'write() for a solver-chosen k (fault enumeration driven by the engine: '
    'one path per fault point), or one internal component raises',
    'failures of the final copy itself are outside the claim',
]
OUTSIDE = ['OS-level failure while the destination is being written after a '
           'successful encode']


class Boom(Exception):
    pass


class FaultyStream(hx.MemStream):
    def __init__(self, fail_at):
        hx.MemStream.__init__(self)
        self.fail_at = fail_at

    def write(self, b):
        if self.fail_at is not None and self.writes == self.fail_at:
            raise OSError('injected write fault')
        return hx.MemStream.write(self, b)


class BadWriter(lua.LuaEchoWriter):
    def to_lines(self):
        yield b'x=1\n'
        raise Boom('lua writer failed')


class UnparsableWriter(lua.LuaEchoWriter):
    """Output that lexes but does not parse."""

    def to_lines(self):
        yield b'x = = 1\n'


class UnlexableWriter(lua.LuaEchoWriter):
    def to_lines(self):
        yield b'x = 1 "\n'


def scenario(x, p):
    fmt = p['fmt']
    dest = '/w/out' + fmt
    exists = x.choice('exists', [True, False])
    fault = x.choice('fault', p['faults'])
    k = None
    if fault == 'write':
        k = x.choice('k', list(range(p['kmax'])))
    files = {}
    old = b'OLD CONTENT OF THE DESTINATION'
    if exists:
        files[dest] = old
    state = {'write_opened': False, 'temp': None}

    class DestStream(hx.MemStream):
        def __init__(self, name):
            hx.MemStream.__init__(self)
            self.name = name
            state['write_opened'] = True
            files[name] = b''          # 'wb+' truncates

        def write(self, b):
            r = hx.MemStream.write(self, b)
            files[self.name] = self.getvalue()
            return r

    def fake_open(name, mode='r', *a, **kw):
        if 'w' in mode or '+' in mode or 'a' in mode:
            return DestStream(name)
        return FakeFile(name)

    def temp_file(**kw):
        s = FaultyStream(k)
        state['temp'] = s
        return s
    rows = [bytearray((3 * r + c) % 256 for c in range(W_ * 4))
            for r in range(H_)]

    class Writer(FakeWriter):
        def write(self, outstr, rws):
            if fault == 'png':
                raise Boom('png encoder failed')
            outstr.write(b'PNGDATA')
    import png
    hx.patch(x, builtins, 'open', fake_open)
    hx.patch(x, os.path, 'exists', lambda n: n in files)
    hx.patch(x, tempfile, 'TemporaryFile', temp_file)
    hx.patch(x, png, 'Reader', lambda file=None, **kw: FakeReader(rows))
    hx.patch(x, png, 'Writer', Writer)
    g = Game.make_empty_game(filename=dest)
    g.lua = lua.Lua.from_lines([b'x=1\n'], version=8)
    writer = None
    if fault == 'luawriter':
        writer = BadWriter
    elif fault == 'reparse':
        writer = UnparsableWriter
    elif fault == 'relex':
        writer = UnlexableWriter
    elif fault == 'section':
        def bad_lines():
            yield b'00\n'
            raise Boom('section encoder failed')
        g.sfx.to_lines = bad_lines
        g.sfx.to_bytes = lambda: (_ for _ in ()).throw(Boom('section'))
    raised = None
    try:
        gfile.to_file(g, dest, lua_writer_cls=writer)
    except Exception as e:
        raised = e
    x.out('raised', raised is not None)
    x.out('nwrites', state['temp'].writes if state['temp'] else -1)
    x.tag('%s %s' % (fault, 'raised' if raised is not None else 'ok'))
    if raised is not None:
        x.check('after a failed write the destination was never opened for '
                'writing', not state['write_opened'],
                info=repr(raised)[:80])
        if exists:
            x.check('an existing destination keeps its bytes',
                    files.get(dest) == old)
        else:
            x.check('a non-existing destination is not created',
                    dest not in files)
    else:
        x.check('without a fault the destination receives the encoded cart',
                And(dest in files, len(files[dest]) > 0,
                    files[dest] == state['temp'].getvalue()))
        if fault in ('luawriter', 'section', 'png'):
            if not (fmt == '.p8' and fault == 'png'):
                x.check('an internal failure surfaces as an error', False,
                        info=fault)
        if fault in ('reparse', 'relex') and fmt == '.p8':
            x.check('output that does not re-parse is rejected before '
                    'anything is written', False)


Q = {'_budget': 1200}
HARNESSES = [
    Harness('scenario', scenario,
            quick=[dict(Q, fmt='.p8', kmax=24, faults=[
                'none', 'write', 'luawriter', 'reparse', 'relex',
                'section']),
                   dict(Q, fmt='.p8.png', kmax=3, faults=[
                       'none', 'write', 'luawriter', 'section', 'png'])],
            thorough=[dict(Q, fmt='.p8', kmax=460, faults=[
                'none', 'write', 'luawriter', 'reparse', 'relex', 'section'],
                _budget=3000),
                      dict(Q, fmt='.p8.png', kmax=3, faults=[
                          'none', 'write', 'luawriter', 'section', 'png'])]),
]
