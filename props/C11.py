"""C11 - a failed cart write never damages the file already at the
destination."""
import builtins
import os
import tempfile

from symx.api import Harness
from symx import hx, rt
from symx.hx import And, Or, Not
from pico8.game import file as gfile
from pico8.game.game import Game
from pico8.lua import lua
from props.C04 import FakeReader, FakeWriter, FakeFile, W_, H_

ENCODED = ['pico8.game.file.to_file',
           'pico8.game.formatter.p8.P8Formatter.to_file',
           'pico8.game.formatter.p8png.P8PNGFormatter.to_file']
ASSUMPTIONS = [
    'in-memory file system: open()/os.path.exists/tempfile.TemporaryFile are '
    'replaced by stubs; the temporary stream raises OSError at the k-th '
    'write() for a solver-chosen k (fault enumeration driven by the engine: '
    'one path per fault point), or one internal component raises',
    'failures of the final copy itself are outside the claim',
]
OUTSIDE = ['OS-level failure while the destination is being written after a '
           'successful encode']


class Boom(Exception):
    pass


class FaultyStream(hx.MemStream):
    def __init__(self, fail_at):
        hx.MemStream.__init__(self)
        self.fail_at = fail_at

    def write(self, b):
        if self.fail_at is not None and self.writes == self.fail_at:
            raise OSError('injected write fault')
        return hx.MemStream.write(self, b)

    # A buffered file reports a full disk only when the buffer is flushed: at
    # seek() or flush() after the last write.  (read() and close() belong to
    # the final copy, whose own failure is outside the property.)
    late = None

    def _late(self, where):
        if self.late == where:
            raise OSError('injected fault at ' + where)

    def seek(self, pos, whence=0):
        self._late('seek')
        return hx.MemStream.seek(self, pos, whence)

    def flush(self):
        self._late('flush')

    def read(self, n=-1):
        self._late('read')
        return hx.MemStream.read(self, n)

    def close(self):
        self._late('close')

    def __exit__(self, *a):
        if a[0] is None:
            self.close()
        return False


class BadWriter(lua.LuaEchoWriter):
    def to_lines(self):
        yield b'x=1\n'
        raise Boom('lua writer failed')


class UnparsableWriter(lua.LuaEchoWriter):
    """Output that lexes but does not parse."""

    def to_lines(self):
        yield b'x = = 1\n'


class UnlexableWriter(lua.LuaEchoWriter):
    def to_lines(self):
        yield b'x = 1 "\n'


def scenario(x, p):
    fmt = p['fmt']
    dest = '/w/out' + fmt
    exists = x.choice('exists', [True, False])
    fault = x.choice('fault', p['faults'])
    k = None
    if fault == 'write':
        k = x.choice('k', list(range(p['kmax'])))
    files = {}
    old = b'OLD CONTENT OF THE DESTINATION'
    if exists:
        files[dest] = old
    state = {'write_opened': False, 'temp': None}

    class DestStream(hx.MemStream):
        def __init__(self, name):
            hx.MemStream.__init__(self)
            self.name = name
            state['write_opened'] = True
            files[name] = b''          # 'wb+' truncates

        def write(self, b):
            r = hx.MemStream.write(self, b)
            files[self.name] = self.getvalue()
            return r

    def fake_open(name, mode='r', *a, **kw):
        if 'w' in mode or '+' in mode or 'a' in mode:
            return DestStream(name)
        return FakeFile(name)

    env = x.choice('env', ['normal', 'no temp dir'])

    def temp_file(**kw):
        if env == 'no temp dir':
            # TMPDIR points nowhere, the disk is full, ...: whatever the
            # writer does instead must be as careful with the destination
            raise OSError('no usable temporary directory')
        s = FaultyStream(k)
        if fault in ('seek', 'flush', 'read', 'close'):
            s.late = fault
        state['temp'] = s
        return s
    rows = [bytearray((3 * r + c) % 256 for c in range(W_ * 4))
            for r in range(H_)]

    class Writer(FakeWriter):
        def write(self, outstr, rws):
            if fault == 'png':
                raise Boom('png encoder failed')
            outstr.write(b'PNGDATA')
    import png
    hx.patch(x, builtins, 'open', fake_open)
    hx.patch(x, os.path, 'exists', lambda n: n in files)

    def fake_remove(name, *a, **kw):
        if name not in files:
            raise FileNotFoundError(name)
        del files[name]

    def fake_rename(src, dst, *a, **kw):
        if src not in files:
            raise FileNotFoundError(src)
        state['write_opened'] = state['write_opened'] or dst == dest
        files[dst] = files.pop(src)
    hx.patch(x, os, 'remove', fake_remove)
    hx.patch(x, os, 'unlink', fake_remove)
    hx.patch(x, os, 'rename', fake_rename)
    hx.patch(x, os, 'replace', fake_rename)
    hx.patch(x, tempfile, 'TemporaryFile', temp_file)
    hx.patch(x, png, 'Reader', lambda file=None, **kw: FakeReader(rows))
    hx.patch(x, png, 'Writer', Writer)
    g = Game.make_empty_game(filename=dest)
    g.lua = lua.Lua.from_lines([b'x=1\n'], version=8)
    writer = None
    if fault == 'luawriter':
        writer = BadWriter
    elif fault == 'reparse':
        writer = UnparsableWriter
    elif fault == 'relex':
        writer = UnlexableWriter
    elif fault == 'section':
        def bad_lines():
            yield b'00\n'
            raise Boom('section encoder failed')
        g.sfx.to_lines = bad_lines
        g.sfx.to_bytes = lambda: (_ for _ in ()).throw(Boom('section'))
    raised = None
    try:
        gfile.to_file(g, dest, lua_writer_cls=writer)
    except Exception as e:
        raised = e
    x.out('raised', raised is not None)
    x.out('nwrites', state['temp'].writes if state['temp'] else -1)
    x.tag('%s %s' % (fault, 'raised' if raised is not None else 'ok'))
    if raised is not None:
        x.check('after a failed write the destination was never opened for '
                'writing', not state['write_opened'],
                info=repr(raised)[:80])
        if exists:
            x.check('an existing destination keeps its bytes',
                    files.get(dest) == old)
        else:
            x.check('a non-existing destination is not created',
                    dest not in files)
    elif state['temp'] is None:
        x.check('a write that succeeds without a temporary file leaves a '
                'cart at the destination',
                And(dest in files, len(files[dest]) > 0))
        if fault != 'none' and not (fmt == '.p8' and fault == 'png'):
            x.check('an internal failure surfaces as an error', False,
                    info=fault)
    else:
        x.check('without a fault the destination receives the encoded cart',
                And(dest in files, len(files[dest]) > 0,
                    files[dest] == state['temp'].getvalue()))
        if fault in ('luawriter', 'section', 'png'):
            if not (fmt == '.p8' and fault == 'png'):
                x.check('an internal failure surfaces as an error', False,
                        info=fault)
        if fault in ('reparse', 'relex') and fmt == '.p8':
            x.check('output that does not re-parse is rejected before '
                    'anything is written', False)


def _png_cart():
    import os
    repo = os.environ.get('SYMX_REPO', '/repo')
    with open(os.path.join(repo, 'tests', 'testdata', 'test_cart.p8.png'),
              'rb') as fh:
        return fh.read()


PNG_CART = _png_cart()


def cli(x, p):
    """Commands that write over an existing file, through tool.main, with
    input that makes producing the cart fail; plus the same commands with
    good input (the destination then holds the new cart)."""
    from props import clikit
    cmd = x.choice('cmd', ['luafmt --overwrite', 'luafmt', 'luamin',
                           'build', 'build --lua-minify'])
    bad = x.choice('input', ['good', 'unknown syntax', 'junk tail',
                             'unlexable', 'missing keep file'])
    codes = {'good': b'x=1\nif (x) y=2\n',
             'unknown syntax': b'x=1\na |= 1\ny=2\n',
             'junk tail': b'x=1\nfoo bar\n',
             'unlexable': b'x="abc\ny=2\n',
             'missing keep file': b'x=1\nif (x) y=2\n'}
    code = codes[bad]
    # the destination before the command: a cart, nothing, or a file that
    # is not a cart at all
    dest_state = x.choice('dest', ['cart', 'absent', 'not a cart'])
    in_fmt = x.choice('in_fmt', ['.p8', '.p8.png'])
    old = clikit.p8_text(b'old=1\n')
    files = {}
    extra = []
    if bad == 'missing keep file':
        if cmd in ('luamin', 'build --lua-minify'):
            extra = ['--keep-names-from-file', '/w/nokeep.txt']
        else:
            x.tag('n/a')
            return
    if cmd.startswith('luafmt') or cmd == 'luamin':
        src_name = '/w/in' + in_fmt
        if in_fmt == '.p8':
            files[src_name] = clikit.p8_text(code)
        else:
            if bad not in ('good', 'missing keep file'):
                x.tag('n/a')
                return
            files[src_name] = PNG_CART
            code = None
        if cmd == 'luafmt --overwrite' and in_fmt == '.p8':
            dest = src_name
            argv = ['luafmt', '--overwrite', src_name]
            if dest_state != 'cart':
                x.tag('n/a')
                return
        elif cmd == 'luafmt --overwrite':
            # (documented: only .p8 files are overwritten in place)
            dest = '/w/in_fmt' + in_fmt
            argv = ['luafmt', '--overwrite', src_name]
        else:
            dest = '/w/in_fmt' + in_fmt
            argv = [cmd] + extra + [src_name]
    else:
        if in_fmt != '.p8':
            x.tag('n/a')
            return
        files['/w/main.lua'] = code
        dest = '/w/out.p8'
        argv = cmd.split(' ') + extra + ['--lua', '/w/main.lua', dest]
    if dest not in files:
        if dest_state == 'cart':
            files[dest] = old if dest.endswith('.p8') else PNG_CART
        elif dest_state == 'not a cart':
            files[dest] = b'notes to self: not a cart\n'
    before = files.get(dest)
    fs = clikit.MemFS(x, files)
    rc, exc = clikit.run_main(argv)
    x.out('rc', repr(rc))
    x.out('exc', repr(exc)[:100])
    wrote = dest in fs.opened_for_write and dest in fs.files
    x.tag('%s / %s / %s' % (cmd, bad, 'written' if wrote else 'not written'))
    if exc is not None or rc != 0:
        x.check('a failed command leaves the destination exactly as it was',
                fs.files.get(dest) == before)
        x.check('a failed command creates no other file',
                clikit.changed(fs) == [])
    if bad == 'good' and not (dest_state == 'not a cart' and (
            cmd.startswith('build') or dest.endswith('.p8.png'))):
        # (build reads OUT first, a .p8.png is written over the picture
        # found at the destination: a file that is not a cart fails both)
        x.check('with good input the command succeeds and writes the '
                'destination', And(exc is None, rc == 0, wrote))
    if wrote and exc is None and rc == 0 and code is not None and \
            dest.endswith('.p8'):
        # whatever was written is a complete, loadable cart holding all of
        # the code's tokens (never a shortened program)
        got = clikit.lua_of(fs.files[dest])
        from pico8.lua import lexer

        def sig(text):
            lx = lexer.Lexer(version=8)
            lx.process_lines([text])
            return [type(t).__name__ for t in lx.tokens if not isinstance(
                t, (lexer.TokSpace, lexer.TokNewline, lexer.TokComment))]
        x.check('a written destination holds every token of the code',
                sig(got) == sig(code))


Q = {'_budget': 1200}
HARNESSES = [
    Harness('scenario', scenario,
            quick=[dict(Q, fmt='.p8', kmax=24, faults=[
                'none', 'write', 'luawriter', 'reparse', 'relex',
                'section', 'seek', 'flush']),
                   dict(Q, fmt='.p8.png', kmax=3, faults=[
                       'none', 'write', 'luawriter', 'section', 'png',
                       'seek'])],
            thorough=[dict(Q, fmt='.p8', kmax=460, faults=[
                'none', 'write', 'luawriter', 'reparse', 'relex', 'section'],
                _budget=3000),
                      dict(Q, fmt='.p8.png', kmax=3, faults=[
                          'none', 'write', 'luawriter', 'section', 'png'])]),
    Harness('cli', cli, quick=[Q]),
]
