"""C12 - require() and #include never read files outside the permitted
directories."""
import builtins
import os

from symx.api import Harness
from symx import hx, rt
from symx.hx import And, Or, Not
from ref import pathref as PR
from pico8.game.formatter import p8
from pico8.build import build
from pico8.lua import lua

ENCODED = ['pico8.game.formatter.p8.process_includes',
           'pico8.game.formatter.p8.get_root_include_path',
           'pico8.game.formatter.p8.INCLUDE_LINE_RE',
           'pico8.build.build._evaluate_require',
           'pico8.build.build._locate_require_file',
           'posixpath.join/dirname/normpath/abspath/expanduser (instrumented '
           'private copy of the interpreter module)']
ASSUMPTIONS = [
    'POSIX path semantics; the cart is /w/r/c.p8 (not inside a PICO-8 carts '
    'folder), main.lua is /w/r/main.lua',
    'file system stub: os.path.isfile answers with a fresh symbolic boolean '
    'for every probed path except the ancestors of the cart directory '
    '(necessarily directories); open() records the path',
    'path strings are drawn from the alphabet { . / r x a } (include) and '
    '{ . / x a ? ; ~ } (require) up to the stated length; plus upper-case R '
    '(include) and the non-UTF-8 bytes 0xff, 0xc3 (require) in parameter '
    'sets of their own',
]
OUTSIDE = ['Windows path semantics', 'path strings longer than the bound or '
           'over other alphabets', 'symbolic links']

ROOT = '/w/r'
HOME = os.path.expanduser('~')


class Opened(Exception):
    pass


def install_fs(x, rec, root=None):
    counter = [0]
    root = root or ROOT

    def isfile(path):
        rec.append(path)
        comps = PR.components(path)
        if len(comps) <= 2 and PR.inside([], path):
            # an ancestor of (or equal to) /w/r is a directory
            rootc = PR.components(root)
            anc = True
            for a, b in zip(comps, rootc):
                if len(a) != len(b) or not And(*[p == q for p, q in
                                                 zip(a, b)]):
                    anc = False
            if anc:
                return False
        counter[0] += 1
        return x.bool('isfile%d' % counter[0])

    def fake_open(path, mode='r', *a, **k):
        rec.append(path)
        raise Opened(path)
    hx.patch(x, os.path, 'isfile', isfile)
    hx.patch(x, builtins, 'open', fake_open)
    if x.symbolic:
        from symx import sympath
        sympath.install_stubs()


def sym_path(x, name, n, alphabet):
    s = x.bytes(name, n)
    for k in range(n):
        x.assume(Or(*[s[k] == ord(c) for c in alphabet]))
    return s


def check_paths(x, rec, roots, what):
    rcs = [PR.components(r) for r in roots]
    for k, path in enumerate(rec):
        ok = Or(*[PR.inside(rc, path) for rc in rcs])
        x.check(what, ok, info=k)


def include(x, p):
    n = p['n']
    body = p.get('prefix', '').encode() + sym_path(x, 'path', n, p.get('alphabet', './rxa'))
    ext = x.choice('ext', [b'.lua', b'.p8', b'.p8.png'])
    tab = x.choice('tab', [b'', b':1'])
    line = b'#include ' + body + ext + tab + b'\n'
    rec = []
    root = p.get('root', ROOT)
    install_fs(x, rec, root)
    cart, cwd = p.get('cart', '/w/r/c.p8'), p.get('cwd', '/w/r')
    hx.patch(x, os, 'getcwd', lambda: cwd)
    if p.get('carts'):
        # a (short) PICO-8 carts folder: carts below it have it as include
        # root, carts next to it in a directory that merely shares its name
        # prefix have their own directory
        hx.set_attr(x, p8, 'PICO8_CART_PATHS', list(p['carts']))
    if p.get('prior_cwd'):
        # the same relative cart name was loaded before from another
        # working directory in this process
        hx.patch(x, os, 'getcwd', lambda: p['prior_cwd'])
        try:
            list(p8.process_includes([b'x=1\n', b'#include a.lua\n'],
                                     filename=cart))
        except Exception:
            pass
        del rec[:]
        hx.patch(x, os, 'getcwd', lambda: cwd)
    err = None
    try:
        out = list(p8.process_includes([line], filename=cart))
    except Opened:
        err = 'opened'
    except (p8.P8IncludeOutsideOfAllowedDirectory, p8.P8IncludeNotFound) \
            as e:
        err = type(e).__name__
    except Exception as e:
        x.check('only the documented include errors are raised', False,
                info=repr(e))
        return
    x.out('err', err)
    x.out('nprobed', len(rec))
    x.tag(str(err))
    # a relative path handed to the OS is resolved against the working
    # directory
    rec = [r if r[:1] == '/' else cwd + '/' + r for r in rec]
    check_paths(x, rec, [root], 'every path probed or opened for #include '
                'lies under the include root')


def require(x, p):
    n = p['n']
    s = sym_path(x, 'req', n, p.get('alphabet', './xa?;~'))
    lua_path = p['lua_path']
    rec = []
    src = b'require("' + s + b'")\n'
    ast = lua.Lua.from_lines([src], version=8)
    install_fs(x, rec)
    err = None
    try:
        build._evaluate_require(ast, file_path='/w/r/main.lua',
                                package_lua={}, lua_path=lua_path)
    except Opened:
        err = 'opened'
    except build.LuaBuildError as e:
        err = 'LuaBuildError'
    except UnicodeDecodeError:
        err = 'UnicodeDecodeError'      # a refusal, too: nothing was opened
    except Exception as e:
        x.check('only LuaBuildError is raised for a bad require()', False,
                info=repr(e))
        return
    x.out('err', err)
    x.tag(str(err))
    roots = [ROOT]
    for pat in (lua_path or build.DEFAULT_LUA_PATH).split(';'):
        d = os.path.dirname(pat.replace('?', 'q'))
        if pat.startswith('/'):
            roots.append(d)
    check_paths(x, rec, roots, 'every path probed or opened for require() '
                'lies under the requiring file\'s directory or a load-path '
                'directory')


Q = {'_budget': 900}
HARNESSES = [
    Harness('include', include, quick=[dict(Q, n=n) for n in (1, 2, 3, 4)] +
            [dict(Q, n=3, cart=c, cwd=d) for c, d in (
                ('c.p8', '/w/r'), ('./c.p8', '/w/r'), ('r/c.p8', '/w'),
                ('../r/c.p8', '/w/q'))] +
            [dict(Q, n=3, prefix='../', cart='/w/rx/c.p8', cwd='/w/rx',
                  root='/w/rx', carts=['/w/r']),
             dict(Q, n=3, prefix='../', cart='/w/r/a/c.p8', cwd='/w/r/a',
                  root='/w/r', carts=['/w/r']),
             dict(Q, n=4, cart='/w/r/c.p8', cwd='/w/r', root='/w/r',
                  carts=['/w/r']),
             dict(Q, n=3, cart='c.p8', cwd='/w/r', prior_cwd='/w'),
             dict(Q, n=3, prefix='../', cart='c.p8', cwd='/w/r/s',
                  root='/w/r/s', prior_cwd='/w/r'),
             # a cart directory literally named "~" (the name reaches picotool
             # unexpanded): the root is that directory, not the home directory
             dict(Q, n=2, prefix='../../', cart='~/c.p8', cwd=HOME + '/w',
                  root=HOME + '/w/~'),
             dict(Q, n=2, cart='~/c.p8', cwd=HOME + '/w',
                  root=HOME + '/w/~'),
             # a sibling directory whose name differs from the root's only by
             # letter case
             dict(Q, n=3, prefix='../', alphabet='./rRa'),
             dict(Q, n=3, prefix='../', alphabet='./rRa', cart='/w/r/c.p8',
                  cwd='/w/r', root='/w/r', carts=['/w/r'])],
            thorough=[dict(Q, n=n, _budget=3000) for n in (1, 2, 3, 4, 5, 6,
                                                          7)]),
    Harness('require', require,
            quick=[dict(Q, n=n, lua_path=lp) for n in (1, 2, 3)
                   for lp in (None, 'lib/?.lua;?/init.lua', '/abs/l/?.lua')] +
            # bytes that are not UTF-8 between the characters of a forbidden
            # sequence (0xff alone, 0xc3 as a lead byte without continuation)
            [dict(Q, n=n, lua_path=None, alphabet='./a\xff\xc3')
             for n in (3, 4)] +
            [dict(Q, n=3, lua_path='/abs/l/?.lua', alphabet='./a\xff')] +
            # blanks and tabs around the forbidden characters
            [dict(Q, n=n, lua_path=lp, alphabet='./a \t')
             for n in (3, 4) for lp in (None, 'lib/?.lua; ?.lua')],
            thorough=[dict(Q, n=n, lua_path=lp, _budget=3000)
                      for n in (1, 2, 3, 4, 5)
                      for lp in (None, 'lib/?.lua;?/init.lua',
                                 '/abs/l/?.lua', '?/?.lua')]),
]
