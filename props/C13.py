"""C13 - build takes each cart section from exactly the source the arguments
name."""
import argparse
import builtins
import os

from symx.api import Harness
from symx import hx, rt
from symx.hx import And, Or, Not
from pico8.build import build
from pico8.game import file as gfile
from pico8.game import game as ggame
from pico8 import util

ENCODED = ['pico8.build.build.do_build',
           'pico8.tool.main / _get_argparser (cli harness)',
           'pico8.game.formatter.p8.P8Formatter.from_file / to_file (cli harness)']
ASSUMPTIONS = [
    'file.from_file / file.to_file / Game.make_empty_game are replaced by '
    'stubs handing out carts whose six sections and label are distinct '
    'marker values (their real behaviour is C03/C04); os.path.exists follows '
    'the chosen scenario',
    'the solver enumerates the configuration space (one path per '
    'configuration): which source each section names, the --empty flags, '
    'whether OUT exists and its format, and one injected argument fault',
]
OUTSIDE = ['.p8.png sources / OUT in the cli harness (scenario harness only); '
           'more than three free sections at once in the cli harness']

SECTIONS = ('lua', 'gfx', 'gff', 'map', 'sfx', 'music')


class Cart:
    pass


def marker_cart(tag):
    g = Cart()
    for s in SECTIONS:
        setattr(g, s, (tag, s))
    g.label = (tag, 'label')
    g.version = 8
    return g


def scenario(x, p):
    out_kind = x.choice('out', ['absent', 'out.p8', 'out.p8.png'])
    filename = '/w/out.p8.png' if out_kind == 'out.p8.png' else '/w/out.p8'
    free = p['free']
    choice = {}
    for s in SECTIONS:
        if s in free:
            opts = ['none', 'p8', 'png', 'empty']
            if s == 'lua':
                opts.append('luafile')
            choice[s] = x.choice('src_' + s, opts)
        else:
            choice[s] = p.get('fixed', 'none')
    fault = x.choice('fault', ['none', 'both', 'missing', 'badext',
                               'badout', 'emptyname'])
    fsec = x.choice('fault_sec', list(free)) \
        if fault not in ('none', 'badout') else None
    if fault == 'badout':
        # OUT itself is not a cart file name
        filename = '/w/out.p8.txt' if out_kind == 'out.p8.png' else \
            '/w/out.lua'
    args = argparse.Namespace(filename=filename, lua_path=None,
                              lua_format=False, lua_minify=False,
                              optimize_tokens=False)
    exists = set()
    if out_kind != 'absent':
        exists.add(filename)
    expected = {}
    will_fail = False
    gone = set()
    for s in SECTIONS:
        c = choice[s]
        setattr(args, s, None)
        setattr(args, 'empty_' + s, False)
        if c in ('p8', 'png', 'luafile'):
            # the same two source carts serve every section that names them
            fn = {'p8': '/w/srcA.p8', 'png': '/w/srcB.p8.png',
                  'luafile': '/w/src_%s.lua' % s}[c]
            setattr(args, s, fn)
            exists.add(fn)
            expected[s] = ('src:' + fn, s)
        elif c == 'empty':
            setattr(args, 'empty_' + s, True)
            expected[s] = 'empty'
        else:
            expected[s] = 'prev'
        if fsec == s:
            if fault == 'both':
                if c in ('p8', 'png', 'luafile'):
                    setattr(args, 'empty_' + s, True)
                    will_fail = True
            elif fault == 'missing':
                if c in ('p8', 'png', 'luafile'):
                    gone.add(getattr(args, s))
                    will_fail = True
            elif fault == 'emptyname':
                # --gfx "" : a source was named, and it is not a file
                setattr(args, s, '')
                will_fail = True
            elif fault == 'badext':
                # not a cart (nor, for the lua section, a .lua file): a text
                # file, a picture, a .lua file named for a data section
                kinds = ['.txt', '.png', '.p8.bak']
                if s != 'lua':
                    kinds.append('.lua')
                fn = '/w/src_%s%s' % (s, x.choice('badext_kind', kinds))
                setattr(args, s, fn)
                exists.add(fn)
                will_fail = True
    exists -= gone
    if fault == 'badout':
        will_fail = True
    written = []
    loaded = []
    empties = []

    def from_file(fn):
        loaded.append(fn)
        return marker_cart('out' if fn == filename else 'src:' + fn)

    def to_file(g, filename=None, **k):
        written.append((g, filename, k))

    def make_empty(filename=None, version=ggame.DEFAULT_VERSION):
        empties.append(1)
        return marker_cart('empty%d' % len(empties))
    hx.patch(x, gfile, 'from_file', from_file)
    hx.patch(x, gfile, 'to_file', to_file)
    hx.patch(x, ggame.Game, 'make_empty_game', make_empty)
    hx.patch(x, os.path, 'exists', lambda fn: fn in exists)
    hx.patch(x, builtins, 'open',
             lambda fn, mode='r', *a, **k: hx.MemStream(b'x=1\n'))
    hx.patch(x, util, 'error', lambda msg: None)
    try:
        rc = build.do_build(args)
    except Exception as e:
        x.check('build does not raise', False, info=repr(e)[:160])
        return
    x.out('rc', rc)
    if will_fail:
        x.tag('bad arguments')
        x.check('conflicting or unusable arguments fail the command',
                rc != 0)
        x.check('and leave OUT untouched', len(written) == 0)
        return
    x.tag('ok')
    x.check('build succeeds', rc == 0)
    x.check('OUT is written exactly once, to the named file',
            And(len(written) == 1, written[0][1] == filename)
            if written else False)
    if not written:
        return
    g = written[0][0]
    prev_tag = 'out' if out_kind != 'absent' else None
    for s in SECTIONS:
        got = getattr(g, s)
        e = expected[s]
        if e == 'prev':
            if prev_tag is None:
                ok = isinstance(got, tuple) and got[0].startswith('empty') \
                    and got[1] == s
            else:
                ok = got == (prev_tag, s)
        elif e == 'empty':
            ok = isinstance(got, tuple) and got[0].startswith('empty') and \
                got[1] == s
        elif s == 'lua' and e[0].endswith('.lua'):
            ok = b''.join(got.to_lines()) == b'x=1\n'
        else:
            ok = got == e
        x.check('section %s comes from the source the arguments name' % s,
                ok, info='got %r expected %r' % (got, e))
    if prev_tag is not None:
        x.check('an existing OUT keeps its label', g.label == ('out',
                                                               'label'))


DATA_SECTIONS = ('gfx', 'gff', 'map', 'sfx', 'music')


def cart_text(tag, label=False, code=None):
    """A .p8 file (written by the real writer) whose six sections all carry
    the tag."""
    from pico8.game.formatter.p8 import P8Formatter
    from pico8.lua import lua
    g = ggame.Game.make_empty_game(filename='x.p8')
    g.lua = lua.Lua.from_lines([code or (b'v=%d\n' % tag)], version=8)
    for i, sec in enumerate(DATA_SECTIONS):
        d = getattr(g, sec)._data
        d[0] = tag
        d[5] = (tag + i + 1) % 128
        d[len(d) - 1] = (tag + 7 * i) % 128
    if label:
        g.label._data[3] = tag
    else:
        g.label = None
    out = hx.MemStream()
    P8Formatter.to_file(g, out, filename='x.p8')
    return out.getvalue()


def empty_text():
    from pico8.game.formatter.p8 import P8Formatter
    out = hx.MemStream()
    P8Formatter.to_file(ggame.Game.make_empty_game(filename='e.p8'), out,
                        filename='e.p8')
    return out.getvalue()


def cli(x, p):
    """`p8tool build ...` through tool.main (argparse wiring, real readers
    and writers) over an in-memory file system with three distinct carts."""
    from props import clikit
    from pico8.lua import lua
    free = p['free']
    out_exists = x.bool('out_exists')
    # (cart names may carry dots of their own: sprites.v2.p8, game.rc1.p8)
    files = {'/w/a.v2.p8': cart_text(11), '/w/b.p8': cart_text(23),
             '/w/m.lua': b'v=99\n', '/w/notes.txt': b'hello'}
    prev = None
    broken = False
    if out_exists:
        prev = cart_text(41, label=True)
        files['/w/out.p8'] = prev
        if p.get('broken_out') and x.bool('out_code_broken'):
            # OUT as saved from the editor in the middle of an edit: its own
            # code does not parse.  The build may refuse it, but it must not
            # drop OUT's other sections.
            broken = True
            files['/w/out.p8'] = prev.replace(b'v=41\n', b'x = = 1\n')
    argv = ['build']
    expected = {}
    will_fail = False
    fault = x.choice('fault', p.get('faults', ['none']))
    fsec = x.choice('fault_sec', list(free)) \
        if fault not in ('none', 'badout') else None
    for sec in SECTIONS:
        if sec not in free:
            expected[sec] = 'prev'
            continue
        opts = ['none', 'a', 'b', 'empty']
        if sec == 'lua':
            opts.append('luafile')
        c = x.choice('src_' + sec, opts)
        if c in ('a', 'b', 'luafile'):
            fn = {'a': '/w/a.v2.p8', 'b': '/w/b.p8', 'luafile': '/w/m.lua'}[c]
            if fsec == sec and fault == 'missing':
                fn = '/w/nothere.p8'
                will_fail = True
            elif fsec == sec and fault == 'emptyname':
                fn = ''
                will_fail = True
            elif fsec == sec and fault == 'badext':
                fn = '/w/notes.txt'
                if sec != 'lua' and x.bool('badext_is_lua'):
                    fn = '/w/m.lua'      # a .lua file for a data section
                will_fail = True
            argv += ['--' + sec, fn]
            if fsec == sec and fault == 'both':
                argv.append('--empty-' + sec)
                will_fail = True
            expected[sec] = c
        elif c == 'empty':
            argv.append('--empty-' + sec)
            expected[sec] = 'empty'
        else:
            expected[sec] = 'prev'
    out_name = '/w/out.p8'
    if fault == 'badout':
        out_name = '/w/out.p8.bak'
        files[out_name] = b'not a cart'
        will_fail = True
    argv.append(out_name)
    x.out('argv', ' '.join(argv))
    fs = clikit.MemFS(x, files)
    rc, exc = clikit.run_main(argv)
    if will_fail:
        x.tag('bad arguments')
        x.check('conflicting or unusable arguments fail the command',
                Or(exc is not None, rc != 0))
        x.check('and leave OUT untouched',
                And(clikit.changed(fs) == [],
                    fs.files.get('/w/out.p8') == prev,
                    fs.files.get(out_name) == files.get(out_name)))
        return
    x.tag('ok')
    if broken and (exc is not None or rc != 0):
        x.tag('refused: OUT does not load')
        x.check('a refused build leaves OUT untouched',
                fs.files.get('/w/out.p8') == files['/w/out.p8'])
        return
    x.check('build succeeds', And(exc is None, rc == 0),
            info=repr((rc, exc))[:160])
    if exc is not None or rc != 0:
        return
    x.check('only OUT is written', clikit.only_changed(fs, '/w/out.p8'))
    for n in ('/w/a.v2.p8', '/w/b.p8', '/w/m.lua'):
        x.check('sources are not modified', fs.files[n] == files[n])

    def load(data):
        from pico8.game.formatter.p8 import P8Formatter
        return P8Formatter.from_file(hx.MemStream(data), filename='x.p8')
    got = load(fs.files['/w/out.p8'])
    carts = {'a': load(files['/w/a.v2.p8']), 'b': load(files['/w/b.p8']),
             'empty': load(empty_text())}
    carts['prev'] = load(prev) if prev is not None else carts['empty']
    for sec in SECTIONS:
        e = expected[sec]
        if sec == 'lua' and broken and e == 'prev':
            continue
        if sec == 'lua':
            want = b'v=99\n' if e == 'luafile' else \
                b''.join(carts[e].lua.to_lines())
            x.check('section lua comes from the source the arguments name',
                    b''.join(got.lua.to_lines()) == want)
        else:
            x.check('section %s comes from the source the arguments name'
                    % sec,
                    bytes(getattr(got, sec)._data) ==
                    bytes(getattr(carts[e], sec)._data))
    if prev is not None:
        x.check('an existing .p8 OUT keeps its label section',
                bytes(got.label._data) == bytes(carts['prev'].label._data))


def twice(x, p):
    """Two builds in one process (tool.main called twice, as a script or a
    test driver does): the second OUT is what the second command alone
    would produce - nothing of the first build's sources or packages."""
    from props import clikit
    first = x.choice('first', ['lua+require', 'lua', 'carts'])
    second = x.choice('second', ['lua', 'lua+require', 'carts',
                                 'same project, package edited'])
    files = {'/w/a.p8': cart_text(11), '/w/b.p8': cart_text(23),
             '/w/p1/main.lua': b'local l=require("lib")\nu=1\n',
             '/w/p1/lib.lua': b'return "one"\n',
             '/w/p1/plain.lua': b'u=11\n',
             '/w/p2/main.lua': b'local l=require("lib")\nw=2\n',
             '/w/p2/lib.lua': b'return "two"\n',
             '/w/p2/plain.lua': b'w=22\n'}

    def argv_for(kind, proj, out):
        if kind == 'lua+require':
            return ['build', '--lua', '/w/%s/main.lua' % proj, out]
        if kind == 'lua':
            return ['build', '--lua', '/w/%s/plain.lua' % proj, out]
        return ['build', '--gfx', '/w/a.p8', '--lua', '/w/b.p8', out]
    fs = clikit.MemFS(x, files)
    rc1, exc1 = clikit.run_main(argv_for(first, 'p1', '/w/out1.p8'))
    x.check('first build succeeds', And(exc1 is None, rc1 == 0),
            info=repr((rc1, exc1))[:160])
    if second == 'same project, package edited':
        # edit - build - edit - build in one process: the package file of
        # the first project changes, the project is built again
        fs.files['/w/p1/lib.lua'] = b'return "one, edited"\n'
        rc2, exc2 = clikit.run_main(argv_for('lua+require', 'p1',
                                             '/w/out2.p8'))
    else:
        rc2, exc2 = clikit.run_main(argv_for(second, 'p2', '/w/out2.p8'))
    x.check('second build succeeds', And(exc2 is None, rc2 == 0),
            info=repr((rc2, exc2))[:160])
    if exc2 is not None or rc2 != 0 or '/w/out2.p8' not in fs.files:
        return
    got = clikit.lua_of(fs.files['/w/out2.p8'])
    x.out('code', got)
    from props.C14 import sig_tokens
    if second == 'same project, package edited':
        exp = b'package={loaded={},_c={}}\npackage._c["lib"]=function()\n' + \
            b'return "one, edited"\n' + b'end\n' + \
            b''.join(build.REQUIRE_LUA_PREAMBLE_REQUIRE) + \
            files['/w/p1/main.lua']
    elif second == 'lua+require':
        exp = b'package={loaded={},_c={}}\npackage._c["lib"]=function()\n' + \
            files['/w/p2/lib.lua'] + b'end\n' + \
            b''.join(build.REQUIRE_LUA_PREAMBLE_REQUIRE) + \
            files['/w/p2/main.lua']
    elif second == 'lua':
        exp = files['/w/p2/plain.lua']
    else:
        exp = b'v=23\n'
    x.check('the second OUT holds what the second command names, nothing '
            'of the first build', sig_tokens(got) == sig_tokens(exp))


Q = {'_budget': 900}
FAULTS = ['none', 'both', 'missing', 'badext', 'badout', 'emptyname']
HARNESSES = [
    Harness('scenario', scenario,
            quick=[dict(Q, free=['lua', 'gfx']), dict(Q, free=['map', 'sfx']),
                   dict(Q, free=['gff', 'music', 'lua']),
                   dict(Q, free=['gfx', 'music'], fixed='p8'),
                   dict(Q, free=['lua', 'gff'], fixed='empty'),
                   dict(Q, free=['map'], fixed='png')],
            thorough=[dict(Q, free=list(SECTIONS), _budget=3000)]),
    Harness('twice', twice, quick=[Q]),
    Harness('cli', cli,
            quick=[dict(Q, free=['lua', 'gfx'], broken_out=True),
                   dict(Q, free=['gff', 'map'], faults=FAULTS),
                   dict(Q, free=['sfx', 'music'])],
            thorough=[dict(Q, free=['lua', 'gfx', 'map'], faults=FAULTS,
                           _budget=3000),
                      dict(Q, free=['gff', 'sfx', 'music'], faults=FAULTS,
                           _budget=3000)]),
]
