"""C14 - build embeds each require()d package once and leaves all code
intact."""
import builtins
import os

from symx.api import Harness
from symx import hx, rt
from symx.hx import And, Or, Not
from ref import luaparse as RP
from props import symtok as ST
from pico8.build import build
from pico8.lua import lua, lexer

ENCODED = ['pico8.build.build.RequireWalker',
           'pico8.build.build._evaluate_require',
           'pico8.build.build._locate_require_file',
           'pico8.build.build._prepend_package_lua',
           'pico8.lua.lua.Lua.from_lines / to_lines']
ASSUMPTIONS = [
    'package bodies are concrete statement templates; the solver chooses the '
    'require graph, the position of a game-loop function (none / first / '
    'middle / last), use_game_loop, the presence of a final newline and the '
    'argument form of require(); the token-for-token claim for arbitrary '
    'bodies rests on C06/C07/C08',
    'file system stub: package files exist under /w/r with the generated '
    'content; every other path does not exist',
]
OUTSIDE = ['more than three packages; custom load paths (C12 covers the '
           'path logic)']

GL = b'function _update()\n f()\nend\n'
PRE = (b'function f() end\nfunction _drawx() end\nfunction _update6() '
       b'end\nlocal function _init() end\nfunction _draw.h() end\n'
       b'function _init:m() end\n')
POST = b'g=2'


def pkg_text(glpos, extra, final_nl, with_gl=True):
    parts = [PRE, extra, POST + b'\n']
    if glpos != 'none' and with_gl:
        parts.insert({'first': 0, 'middle': 1, 'last': 3}[glpos], GL)
    text = b''.join(parts)
    if not final_nl:
        text = text[:-1]
    return text


def sig_tokens(text):
    lx = lexer.Lexer(version=8)
    lx.process_lines([text])
    return [(type(t).__name__, t.code) for t in lx.tokens
            if not isinstance(t, (lexer.TokSpace, lexer.TokNewline,
                                  lexer.TokComment))]


def graph(x, p):
    # --- the solver picks the scenario -----------------------------------
    e_m1 = x.choice('main->p1', [True, False])
    e_m2 = x.choice('main->p2', [True, False])
    e_12 = x.choice('p1->p2', [True, False])
    e_21 = x.choice('p2->p1', [False, True]) if p.get('cycle') else False
    ugl_form = x.choice('use_game_loop', ['absent', 'true', 'false'])
    ugl = ugl_form == 'true'
    gl1 = x.choice('gl1', ['none', 'first', 'middle', 'last'])
    gl2 = x.choice('gl2', ['none', 'last']) if p.get('gl2') else 'none'
    nl1 = x.choice('nl1', [True, False])
    nl2 = x.choice('nl2', [True, False])
    sub = p.get('sub', '')
    opt = {'absent': b'', 'true': b',{use_game_loop=true}',
           'false': b',{use_game_loop=false}'}[ugl_form]
    main = b''
    form = x.choice('main_form', ['stat', 'arg', 'prefix', 'closure',
                                  'string-call'])
    if e_m1:
        call = b'require("' + sub.encode() + b'p1"' + opt + b')'
        if form == 'arg':
            main += b'print(' + call + b')\n'
        elif form == 'prefix':
            main += call + b'.foo()\n'
        elif form == 'closure':
            main += b'f(function() return ' + call + b' end)\n'
        elif form == 'string-call' and ugl_form == 'absent':
            main += b'z=require "' + sub.encode() + b'p1"\n'
        else:
            main += call + b'\n'
    if e_m2:
        main += b'local q=require("p2")\n'
    main += b'x=1\n'
    ex1 = b'require("p2")\n' if e_12 else b'h=3\n'
    ex2 = b'require("p1")\n' if e_21 else b'k=4\n'
    t1 = pkg_text(gl1, ex1, nl1)
    t2 = pkg_text(gl2, ex2, nl2)
    # (a package in a subdirectory resolves its own require() strings
    # relative to itself: the same files are visible from there)
    # relative to itself): the copy next to p1 differs from the one next to
    # main.lua, so resolving against the wrong directory is visible
    t2sub = t2.replace(b'g=2', b'g=22')
    files = {'/w/r/' + sub + 'p1.lua': t1, '/w/r/p2.lua': t2}
    if sub:
        files['/w/r/' + sub + 'p2.lua'] = t2sub
    opened = []

    def isfile(path):
        return path in files

    def fake_open(path, mode='r', *a, **k):
        opened.append(path)
        return hx.MemStream(files[path])
    hx.patch(x, os.path, 'isfile', isfile)
    hx.patch(x, builtins, 'open', fake_open)
    main_lua = lua.Lua.from_lines([main], version=8)
    package_lua = {}
    try:
        build._evaluate_require(main_lua, file_path='/w/r/main.lua',
                                package_lua=package_lua, lua_path=None)
        built = build._prepend_package_lua(main_lua, package_lua)
    except Exception as e:
        x.check('a valid require graph builds', False, info=repr(e)[:160])
        return
    code = b''.join(built.to_lines())
    x.out('code', code)
    # --- expected: preorder of first encounters -------------------------------
    order = []
    strip = {}

    via_sub = {}

    def visit(name, use_gl, from_sub):
        if name in order:
            return
        order.append(name)
        strip[name] = not use_gl
        via_sub[name] = from_sub
        if name == 'p1' and e_12:
            visit('p2', False, bool(sub))
        if name == 'p2' and e_21:
            visit('p1', False, False)
    if e_m1:
        visit('p1', ugl, False)
    if e_m2:
        visit('p2', False, False)
    x.tag('packages=%d' % len(order))
    if not order:
        x.check('without require() the code is the main program',
                code == main)
        return
    exp = b'package={loaded={},_c={}}\n'
    for name in order:
        key = (sub + 'p1') if name == 'p1' else 'p2'
        if name == 'p1':
            text = pkg_text(gl1, ex1, nl1, with_gl=not strip[name])
        else:
            text = pkg_text(gl2, ex2, nl2, with_gl=not strip[name])
            if via_sub.get(name):
                text = text.replace(b'g=2', b'g=22')
        exp += b'package._c["' + key.encode() + b'"]=function()\n' + text + \
            b'\nend\n'
    exp += b''.join(build.REQUIRE_LUA_PREAMBLE_REQUIRE) + main
    x.check('each distinct package is read exactly once',
            len(opened) == len(order) and len(set(opened)) == len(opened))
    x.check('built code = package table + each package once, token for '
            'token (minus its game loop functions unless use_game_loop) + '
            'loader + the main program unchanged',
            sig_tokens(code) == sig_tokens(exp),
            info='code=%r' % code[:300])
    # the built code parses completely
    vs = ST.views(list(built.tokens))
    ok = True
    try:
        RP.parse(vs)
    except (RP.Reject, RP.Abstain) as e:
        ok = False
    x.check('the built code parses (reference parser)', ok)
    end_ok = True
    for k in range(built.root.end_pos, len(built.tokens)):
        if not vs[k].is_(RP.TRIVIA):
            end_ok = False
    x.check('picotool parsed the built code to its end', end_ok)


def cli(x, p):
    """`p8tool build --lua main.lua [--lua-path P] out.p8` through tool.main
    with the package present in any subset of three places; the load path
    comes from the default, --lua-path or PICO8_LUA_PATH."""
    from props import clikit
    cfg = x.choice('config', ['default', 'option', 'env', 'option+env'])
    places = ['/w/lib/p1.lua', '/w/r/p1.lua', '/w/env/p1.lua']
    present = [x.bool('in_lib'), x.bool('next_to_main'), x.bool('in_env')]
    main = b'local p=require("p1")\nx=1\n'
    files = {'/w/r/main.lua': main}
    texts = {}
    for pl, pr, tag in zip(places, present, (b'lib', b'r', b'env')):
        texts[pl] = b'function f() end\nreturn "' + tag + b'"\n'
        if pr:
            files[pl] = texts[pl]
    fs = clikit.MemFS(x, files)
    argv = ['build', '--lua', '/w/r/main.lua']
    if cfg in ('option', 'option+env'):
        argv += ['--lua-path', '/w/lib/?.lua;?.lua']
        order = ['/w/lib/p1.lua', '/w/r/p1.lua']
    elif cfg == 'env':
        order = ['/w/env/p1.lua']
    else:
        order = ['/w/r/p1.lua']
    if cfg in ('env', 'option+env'):
        fs.env['PICO8_LUA_PATH'] = '/w/env/?.lua'
    argv.append('/w/out.p8')
    rc, exc = clikit.run_main(argv)
    chosen = None
    for pl in order:
        if pl in files:
            chosen = pl
            break
    if chosen is None:
        x.tag('not found')
        x.check('a require() whose file cannot be found fails the build',
                Or(exc is not None, rc != 0))
        x.check('and no cart is written', clikit.changed(fs) == [])
        return
    x.tag('found')
    x.check('build succeeds', And(exc is None, rc == 0),
            info=repr((rc, exc))[:160])
    if exc is not None or rc != 0:
        return
    x.check('only the package the load path selects is opened',
            [n for n in fs.opened_for_read if n.endswith('p1.lua')] ==
            [chosen])
    got = clikit.lua_of(fs.files['/w/out.p8'])
    x.out('code', got)
    exp = b'package={loaded={},_c={}}\npackage._c["p1"]=function()\n' + \
        texts[chosen] + b'end\n' + \
        b''.join(build.REQUIRE_LUA_PREAMBLE_REQUIRE) + main
    x.check('the written cart holds the package table, the selected '
            'package, the loader and the main program',
            sig_tokens(got) == sig_tokens(exp))


def bad_args(x, p):
    form = x.choice('form', [b'require()', b'require(1)', b'require("p1",1)',
                             b'require("p1",{a=1})',
                             b'require("p1",{use_game_loop=1})',
                             b'require("p1",{},{})', b'require("nofile")',
                             b'require("p1")'])
    files = {'/w/r/p1.lua': b'x=1\n'}
    hx.patch(x, os.path, 'isfile', lambda path: path in files)
    hx.patch(x, builtins, 'open',
             lambda path, mode='r', *a, **k: hx.MemStream(files[path]))
    main_lua = lua.Lua.from_lines([form + b'\n'], version=8)
    err = None
    try:
        build._evaluate_require(main_lua, file_path='/w/r/main.lua',
                                package_lua={}, lua_path=None)
    except build.LuaBuildError:
        err = 'LuaBuildError'
    except Exception as e:
        err = repr(e)
    x.out('err', err)
    if form == b'require("p1")':
        x.check('the supported form is accepted', err is None)
    else:
        x.check('missing file / unsupported arguments fail the build with '
                'an error', err == 'LuaBuildError', info=str(err))


def empty_pkgs(x, p):
    """A required package that leaves nothing to embed - an empty file, only
    comments or blank lines, only game-loop functions (dropped unless
    use_game_loop) - is still defined in the package table, once, because
    the loader calls it."""
    body = x.choice('body', [b'', b'\n\n', b'-- only a comment\n',
                             b'--[[ c ]] function _update() end\n',
                             b';function _draw() end function _init() end',
                             b'-- no final line end',
                             b'function _update() end\n',
                             b'function _draw()\nend',
                             b'function _init() end\nfunction _draw() end\n'])
    ugl = x.choice('use_game_loop', [False, True])
    opt = b',{use_game_loop=true}' if ugl else b''
    main = b'local p=require("p1"' + opt + b')\nx=1\n'
    files = {'/w/r/p1.lua': body}
    hx.patch(x, os.path, 'isfile', lambda path: path in files)
    hx.patch(x, builtins, 'open',
             lambda path, mode='r', *a, **k: hx.MemStream(files[path]))
    main_lua = lua.Lua.from_lines([main], version=8)
    package_lua = {}
    try:
        build._evaluate_require(main_lua, file_path='/w/r/main.lua',
                                package_lua=package_lua, lua_path=None)
        built = build._prepend_package_lua(main_lua, package_lua)
    except Exception as e:
        x.check('a package with nothing to embed builds', False,
                info=repr(e)[:160])
        return
    code = b''.join(built.to_lines())
    x.out('code', code)
    toks = [t for t in built.tokens if not isinstance(
        t, (lexer.TokSpace, lexer.TokNewline, lexer.TokComment))]
    keys = []
    for k in range(len(toks) - 3):
        if toks[k].matches(lexer.TokName(b'_c')) and \
                toks[k + 1].matches(lexer.TokSymbol(b'[')) and \
                isinstance(toks[k + 2], lexer.TokString) and \
                toks[k + 3].matches(lexer.TokSymbol(b']')) and \
                toks[k + 4].matches(lexer.TokSymbol(b'=')):
            keys.append(toks[k + 2].value)
    x.check('the package table defines the required name exactly once',
            keys == [b'p1'])
    body_sig = sig_tokens(body)
    if not ugl:
        # every body here is game-loop functions only (plus comments, a
        # stray semicolon)
        body_sig = [t for t in sig_tokens(body) if t[1] == b';'] \
            if b'function' in body else sig_tokens(body)
    exp = b'package={loaded={},_c={}}\npackage._c["p1"]=function()\n'
    x.check('the built code is the package table, the package (minus its '
            'game loop functions), the loader and the main program',
            sig_tokens(code) == sig_tokens(exp) + body_sig + sig_tokens(
                b'end\n' + b''.join(build.REQUIRE_LUA_PREAMBLE_REQUIRE) +
                main))
    end_ok = built.root.end_pos >= len(built.tokens) or all(
        isinstance(t, (lexer.TokSpace, lexer.TokNewline, lexer.TokComment))
        for t in built.tokens[built.root.end_pos:])
    x.check('picotool parsed the built code to its end', end_ok)


POSITIONS = [
    ('stat', b'%s\n'), ('local', b'local z=%s\n'),
    ('if-body', b'if a then %s end\n'),
    ('elseif-body', b'if a then x=2 elseif b then %s end\n'),
    ('else-body', b'if a then x=2 else %s end\n'),
    ('if-cond', b'if %s then x=2 end\n'),
    ('elseif-cond', b'if a then x=2 elseif %s then x=3 end\n'),
    ('short-if', b'if (a) %s\n'), ('short-if-else', b'if (a) x=2 else %s\n'),
    ('short-if-cond', b'if (%s) x=2\n'),
    ('while-body', b'while a do %s end\n'),
    ('while-cond', b'while %s do break end\n'),
    ('repeat-body', b'repeat %s until a\n'),
    ('until-cond', b'repeat x=2 until %s\n'),
    ('for-body', b'for i=1,2 do %s end\n'),
    ('for-bound', b'for i=1,%s do end\n'),
    ('for-step', b'for i=1,2,%s do end\n'),
    ('for-in-body', b'for k,v in pairs(t) do %s end\n'),
    ('for-in-exp', b'for k in pairs(%s) do end\n'),
    ('do-body', b'do %s end\n'), ('function-body', b'function g() %s end\n'),
    ('local-function-body', b'local function g() %s end\n'),
    ('method-body', b'function o:m() %s end\n'),
    ('table-item', b't={1,%s}\n'), ('table-named', b't={a=%s}\n'),
    ('table-key', b't={[%s]=1}\n'), ('index', b't[%s]=1\n'),
    ('index-rhs', b'z=t[%s]\n'), ('binop-right', b'z=1+%s\n'),
    ('binop-left', b'z=%s+1\n'), ('unop', b'z=#%s\n'),
    ('and-or', b'z=a and %s or b\n'), ('paren', b'z=(%s)\n'),
    ('second-value', b'a,b=1,%s\n'), ('method-arg', b'o:m(1,%s)\n'),
    ('nested-call-arg', b'f(g(%s))\n'), ('compound', b'z+=%s\n'),
    ('print-shorthand', b'?%s\n'),
    ('return-in-function', b'function g() return %s end\n'),
    ('nested-blocks', b'for i=1,2 do if a then while b do %s end end end\n'),
]


def positions(x, p):
    """A require() call in every syntactic position of the main program
    (statement bodies, conditions, bounds, table fields, operands,
    arguments): the package is found and embedded once."""
    pos, tmpl = x.choice('position', POSITIONS)
    ugl_form = x.choice('use_game_loop', ['absent', 'true'])
    opt = {'absent': b'', 'true': b',{use_game_loop=true}'}[ugl_form]
    call = b'require("p1"' + opt + b')'
    main = b'y=0\n' + tmpl.replace(b'%s', call) + b'x=1\n'
    t1 = b'function f() end\n' + GL + b'g=2\n'
    files = {'/w/r/p1.lua': t1}
    opened = []

    def fake_open(path, mode='r', *a, **k):
        opened.append(path)
        return hx.MemStream(files[path])
    hx.patch(x, os.path, 'isfile', lambda path: path in files)
    hx.patch(x, builtins, 'open', fake_open)
    try:
        main_lua = lua.Lua.from_lines([main], version=8)
    except Exception as e:
        x.check('the main program parses', False, info=pos + ' ' + repr(e))
        return
    package_lua = {}
    try:
        build._evaluate_require(main_lua, file_path='/w/r/main.lua',
                                package_lua=package_lua, lua_path=None)
        built = build._prepend_package_lua(main_lua, package_lua)
    except Exception as e:
        x.check('a require() in this position builds', False,
                info=pos + ' ' + repr(e)[:160])
        return
    code = b''.join(built.to_lines())
    x.out('code', code)
    body = t1 if ugl_form == 'true' else b'function f() end\ng=2\n'
    exp = b'package={loaded={},_c={}}\npackage._c["p1"]=function()\n' + \
        body + b'end\n' + b''.join(build.REQUIRE_LUA_PREAMBLE_REQUIRE) + main
    x.check('the package file is read exactly once', opened ==
            ['/w/r/p1.lua'], info=pos)
    x.check('a require() in any syntactic position is found and its package '
            'embedded once before the loader and the unchanged main program',
            sig_tokens(code) == sig_tokens(exp), info=pos)


def names(x, p):
    """The required name is a Lua string: whatever characters it holds, the
    package table defines exactly that name (the key is written as a string
    literal denoting the same bytes)."""
    n = p['n']
    name = x.bytes('name', n)
    for k in range(n):
        c = name[k]
        x.assume(And(c >= 32, c <= 126, c != 46, c != 47, c != 63, c != 59,
                     c != 126))
    q = x.choice('quote', [b'"', b"'"])
    lit = b''
    for k in range(n):
        c = name[k]
        if c == 92:
            lit += b'\\\\'
        elif c == q[0]:
            lit += b'\\' + q
        else:
            lit += name[k:k + 1]
    main = b'local p=require(' + q + lit + q + b')\nx=1\n'
    fname = '/w/r/' + str(name, 'latin-1') + '.lua'
    t1 = b'g=2\n'
    hx.patch(x, os.path, 'isfile', lambda path: path == fname)
    hx.patch(x, builtins, 'open',
             lambda path, mode='r', *a, **k: hx.MemStream(t1))
    if x.symbolic:
        from symx import sympath
        sympath.install_stubs()
    try:
        main_lua = lua.Lua.from_lines([main], version=8)
        req = [t for t in main_lua.tokens if isinstance(t, lexer.TokString)]
    except Exception as e:
        x.check('the main program lexes', False, info=repr(e))
        return
    x.check('harness: the literal denotes the name',
            And(len(req) == 1, req[0].value == name))
    # (a dictionary that compares symbolic keys by equality, not by hash)
    package_lua = rt.SDict() if x.symbolic else {}
    try:
        build._evaluate_require(main_lua, file_path='/w/r/main.lua',
                                package_lua=package_lua, lua_path=None)
        built = build._prepend_package_lua(main_lua, package_lua)
    except Exception as e:
        x.check('a package whose name has unusual characters builds', False,
                info=repr(e)[:160])
        return
    toks = [t for t in built.tokens if not isinstance(
        t, (lexer.TokSpace, lexer.TokNewline, lexer.TokComment))]
    keys = []
    for k in range(len(toks) - 3):
        if toks[k].matches(lexer.TokName(b'_c')) and \
                toks[k + 1].matches(lexer.TokSymbol(b'[')) and \
                isinstance(toks[k + 2], lexer.TokString) and \
                toks[k + 3].matches(lexer.TokSymbol(b']')):
            keys.append(toks[k + 2].value)
    x.out('nkeys', len(keys))
    x.check('the package table defines exactly the required name, once',
            And(len(keys) == 1, keys[0] == name))


Q = {'_budget': 900}
HARNESSES = [
    Harness('graph', graph, quick=[dict(Q), dict(Q, sub='lib/', gl2=True)],
            thorough=[dict(Q), dict(Q, sub='lib/', gl2=True),
                      dict(Q, cycle=True, gl2=True)]),
    Harness('bad_args', bad_args, quick=[Q]),
    Harness('positions', positions, quick=[Q]),
    Harness('empty_pkgs', empty_pkgs, quick=[Q]),
    Harness('names', names, quick=[dict(Q, n=1), dict(Q, n=2)],
            thorough=[dict(Q, n=1), dict(Q, n=2), dict(Q, n=3)]),
    Harness('cli', cli, quick=[Q]),
]
# builds in a row in one process (shared with C13): packages of an earlier
# build, or an earlier reading of a package file, must not reach a later cart
from props import C13 as _C13
HARNESSES.append(Harness('twice', _C13.twice, quick=[Q]))

