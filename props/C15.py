"""C15 - P8SCII <-> Unicode conversion is a bijection on all byte strings."""
from symx.api import Harness
from symx import hx
from symx.hx import And, Or, Not, Ite
from pico8.lua import lua

ENCODED = ['pico8.lua.lua.p8scii_to_unicode', 'pico8.lua.lua.unicode_to_p8scii',
           'pico8.lua.lua.P8SCII_CHARSET (live table)',
           'pico8.lua.lua.UNICODE_TO_P8SCII / UNICODE_CHAR_WIDTHS (live)']
ASSUMPTIONS = [
    'hand step: unicode_to_p8scii reads only s[idx:idx+w] with w <= 2 per '
    'iteration, so strings of length <= 2 plus the table lemmas (distinct, '
    'prefix-free spellings; width table consistent) give all lengths',
]
OUTSIDE = ['byte strings longer than the stated bound (covered by the hand '
           'step above)']


def table(x, p):
    """Table lemmas with symbolic indices i != j (all 65 280 ordered pairs
    per query)."""
    i = x.int('i', 0, 255)
    j = x.int('j', 0, 255)
    x.check('table has 256 entries', len(lua.P8SCII_CHARSET) == 256)
    ci = lua.P8SCII_CHARSET[i]
    cj = lua.P8SCII_CHARSET[j]
    x.check('entry i describes byte i', ci.p8scii == i)
    si = ci.p8string
    sj = cj.p8string
    x.tag('len %d/%d' % (len(si), len(sj)))
    x.check('spelling is one or two code points',
            Or(len(si) == 1, len(si) == 2))
    for k in range(len(si)):
        c = ord(si[k])
        x.check('no surrogate code points (always UTF-8 encodable)',
                Not(And(c >= 0xd800, c <= 0xdfff)))
    x.check('width table keyed by first code point gives the spelling length',
            lua.UNICODE_CHAR_WIDTHS[si[0]] == len(si))
    x.check('reverse map sends the spelling back to its byte',
            lua.UNICODE_TO_P8SCII[si] == i)
    x.out('si', si)
    x.assume(i != j)
    if len(si) == len(sj):
        x.check('distinct bytes have distinct spellings', Not(si == sj))
    elif len(si) < len(sj):
        x.check('no spelling is a prefix of another',
                Not(sj[:len(si)] == si))
    else:
        x.check('no spelling is a prefix of another',
                Not(si[:len(sj)] == sj))


def roundtrip(x, p):
    n = p['n']
    bs = x.bytes('bs', n)
    try:
        u = lua.p8scii_to_unicode(bs)
        enc = bytes(u, 'utf-8')
        dec = str(enc, encoding='utf-8')
        back = lua.unicode_to_p8scii(dec)
    except Exception as e:
        x.check('conversion never raises', False, info=repr(e))
        return
    x.out('u', u)
    x.out('back', back)
    x.check('utf-8 encode/decode of the text is lossless', dec == u)
    x.check('round trip returns the original bytes', back == bs)


Q = {'_budget': 200}
HARNESSES = [
    Harness('table', table, quick=[Q]),
    Harness('roundtrip', roundtrip, quick=[dict(Q, n=1), dict(Q, n=2)],
            thorough=[dict(Q, n=1), dict(Q, n=2), dict(Q, n=3, _budget=900)]),
]
