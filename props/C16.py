"""C16 - on-disk encodings match the PICO-8 cart formats (not merely each
other): differential against ref/p8format in both directions on symbolic
contents."""
from symx.api import Harness
from symx import hx
from symx.hx import And, Or, Not, Ite
from ref import p8format as F
from pico8.gfx.gfx import Gfx
from pico8.map.map import Map
from pico8.gff.gff import Gff
from pico8.music.music import Music
from pico8.sfx.sfx import Sfx
from pico8.game.formatter import p8png

ENCODED = [
    'pico8.gfx.gfx.Gfx.to_lines/from_lines',
    'pico8.util.BaseSection.to_lines/from_lines', 'pico8.util.bytes_to_hex',
    'pico8.sfx.sfx.Sfx.to_lines/from_lines/get_note/set_note/'
    'get_properties/set_properties',
    'pico8.music.music.Music.to_lines/from_lines',
    'pico8.game.formatter.p8png.get_pngdata_from_picodata/'
    'get_picodata_from_pngdata',
    'pico8.game.formatter.p8.P8Formatter.from_file (trimmed sections)']
ASSUMPTIONS = [
    'ref/p8format.py states the PICO-8 formats correctly (validated against '
    'the PICO-8-written fixtures in tests/testdata by ref/validate.py)',
    'rows are checked one at a time: the row loops of the section codecs '
    'treat rows independently (hand argument); the thorough tier runs all '
    'rows of every region at once',
]
PRECHECKS = ['ref.validate']
OUTSIDE = ['rows with upper-case or non-hex characters (PICO-8 does not '
           'write them)', 'PNG container / zlib (pypng)']


def elems(line):
    return list(line)


def same(x, name, got, exp):
    if len(got) != len(exp):
        x.check(name + ' (length)', False,
                info='len %d vs %d' % (len(got), len(exp)))
        return
    x.check_all(name, [a == b for a, b in zip(got, exp)])


def rows_of(mem, n):
    return [mem[k:k + n] for k in range(0, len(mem), n)]


# --- gfx / label -----------------------------------------------------------------

def gfx(x, p):
    nrows = p['rows']
    mem = x.bytearray('mem', 64 * nrows)
    g = hx.made(Gfx, mem)
    lines = list(g.to_lines())
    x.check('one line per 64 bytes', len(lines) == nrows)
    ref_lines = [F.gfx_row(list(r)) for r in rows_of(list(mem), 64)]
    for k in range(nrows):
        same(x, 'gfx row text = pixel digits in screen order',
             elems(lines[k]), ref_lines[k])
    x.out('line0', lines[0])
    # reading: the reference text must load to the same bytes
    text = [bytes(r) for r in ref_lines]
    g2 = Gfx.from_lines(text, version=8)
    same(x, 'gfx rows read back to the memory bytes', list(g2._data),
         list(mem))
    x.out('back', bytes(g2._data))


# --- gff / map (plain hex rows) -----------------------------------------------------

def plain(x, p):
    cls = {'gff': Gff, 'map': Map}[p['sec']]
    width = cls.HEX_LINE_LENGTH_BYTES
    nrows = p['rows']
    mem = x.bytearray('mem', width * nrows)
    s = hx.made(cls, mem)
    lines = list(s.to_lines())
    x.check('row count', len(lines) == nrows)
    x.check('128 bytes per row', width == 128)
    ref_lines = [F.hex_row(list(r)) for r in rows_of(list(mem), width)]
    for k in range(nrows):
        same(x, p['sec'] + ' row text = plain hex', elems(lines[k]),
             ref_lines[k])
    x.out('line0', lines[0])
    s2 = cls.from_lines([bytes(r) for r in ref_lines], version=8)
    same(x, p['sec'] + ' rows read back', list(s2._data), list(mem))


# --- sfx -------------------------------------------------------------------------------

def sfx(x, p):
    ids = p['ids']
    if ids == 'all':
        mem = x.bytearray('mem', 4352)
        ids = list(range(64))
    else:
        mem = hx.snap(bytearray(4352))
        mem = bytearray_like(x, mem, ids)
    s = hx.made(Sfx, mem)
    lines = list(s.to_lines())
    x.check('64 sfx rows', len(lines) == 64)
    for i in ids:
        same(x, 'sfx row = header + 32 five-digit notes', elems(lines[i]),
             F.sfx_row(list(mem[i * 68:(i + 1) * 68])))
    x.out('line', lines[ids[0]])
    # reading a reference row
    pat = x.bytearray('pat', 68)
    row = bytes(F.sfx_row(list(pat)))
    s2 = Sfx.from_lines([row], version=8)
    same(x, 'sfx row reads back to the 68 memory bytes',
         list(s2._data[0:68]), list(pat))
    x.out('back', bytes(s2._data[0:68]))


def bytearray_like(x, mem, ids):
    """Zero region with symbolic patterns at the given ids."""
    out = x.bytearray('mem0', 0)
    base = list(bytes(4352))
    for i in ids:
        pat = x.ints('pat%d' % i, 68, 0, 255)
        base[i * 68:(i + 1) * 68] = pat
    out.extend(base)
    return out


# --- music --------------------------------------------------------------------------------

def music(x, p):
    n = p['patterns']
    mem = x.bytearray('mem', 4 * n)
    m = hx.made(Music, mem)
    lines = list(m.to_lines())
    x.check('one row per pattern', len(lines) == n)
    for k in range(n):
        same(x, 'music row = flag byte + four channel bytes',
             elems(lines[k]), F.music_row(list(mem[4 * k:4 * k + 4])))
    x.out('line0', lines[0])
    # reading: flags 0..7, channel bytes 0..127 as PICO-8 writes them
    fl = x.int('flags', 0, 7)
    ch = x.ints('ch', 4, 0, 127)
    row = F.hexbyte(fl) + [32]
    for c in ch:
        row = row + F.hexbyte(c)
    row = bytes(row + [10])
    m2 = Music.from_lines([row], version=8)
    exp = F.music_row_decode(list(row))
    same(x, 'music row reads to channel bytes with flag bits in bit 7',
         list(m2._data), exp)
    x.out('back', bytes(m2._data))


# --- PNG pixels --------------------------------------------------------------------------------

def png_pixels(x, p):
    w, h, n = p['w'], p['h'], p['n']
    pico = x.bytes('pico', n)
    rows = [x.bytearray('row%d' % r, w * 4) for r in range(h)]
    attrs = {'planes': 4}
    new_rows = p8png.get_pngdata_from_picodata(pico, rows, attrs)
    x.check('row count kept', len(new_rows) == h)
    for r in range(h):
        got = list(new_rows[r])
        exp = []
        for c in range(w):
            k = r * w + c
            px = list(rows[r][c * 4:c * 4 + 4])
            if k < n:
                exp.extend(F.png_pixel(pico[k], px[0], px[1], px[2], px[3]))
            else:
                exp.extend(px)          # beyond the data: copied verbatim
        same(x, 'pixel k carries byte k: A,R,G,B get bit pairs 7-6,5-4,3-2,'
             '1-0; upper six bits kept', got, exp)
    x.out('row0', bytes(new_rows[0]))
    # decoding side on arbitrary pixels
    back = p8png.get_picodata_from_pngdata(w, h, rows, attrs)
    exp = []
    for r in range(h):
        for c in range(w):
            px = list(rows[r][c * 4:c * 4 + 4])
            exp.append(F.png_byte(px[0], px[1], px[2], px[3]))
    same(x, 'byte k is read from the low bit pairs of pixel k', list(back),
         exp)
    x.out('back', list(back))


# --- sections with omitted trailing rows (as PICO-8 writes them) ---------------

from props.p8text import REGION, ORDER, MUSIC_DEFAULT, trimmed_text


def trimmed(x, p):
    """PICO-8 omits trailing default rows when it saves a .p8: a section may
    hold any number of rows from zero to all.  The loaded regions must still
    have their full size, the rows present must decode as the format says,
    the rows omitted must hold the defaults, and saving as .p8.png must put
    every region at its address."""
    from pico8.game.formatter.p8 import P8Formatter
    sec = p['sec']
    size, rowbytes, _ = REGION[sec]
    total = size // rowbytes
    n = x.choice('rows', sorted(set(k for k in (0, 1, 2, 3, total - 1, total)
                                    if 0 <= k <= total)))
    others = x.choice('others', ['absent', 'one row', 'full'])
    counts = {}
    for s_ in ORDER:
        tot = REGION[s_][0] // REGION[s_][1]
        counts[s_] = n if s_ == sec else \
            {'absent': None, 'one row': 1, 'full': tot}[others]
    text, row_mem = trimmed_text(counts)
    prior = x.choice('after_other_load', [False, True, 'edited blank cart'])
    if prior == 'edited blank cart':
        # a cart without any data section was loaded and edited through the
        # library earlier in the same process
        blank, _ = trimmed_text({}, code=b'y=2\n')
        og = P8Formatter.from_file(hx.MemStream(blank), filename='o.p8')
        og.gfx.set_sprite(1, [[7, 7]])
        og.map.set_cell(1, 1, 9)
        og.map.set_cell(1, 40, 9)
        og.gff.set_flags(2, 0xff)
        og.music.set_channel(0, 0, 5)
        og.sfx.set_note(0, 0, pitch=12, volume=5)
        og.sfx.set_properties(1, note_duration=3)
    elif prior:
        # another cart, with every section filled, was loaded earlier in the
        # same process: nothing of it may show up in this one
        full = {}
        for s_ in ORDER:
            full[s_] = REGION[s_][0] // REGION[s_][1]
        other, _ = trimmed_text(full, code=b'y=2\n')
        P8Formatter.from_file(hx.MemStream(other), filename='o.p8')
    g = P8Formatter.from_file(hx.MemStream(text), filename='x.p8')
    for s_ in ORDER:
        if s_ not in row_mem:
            # a section the file does not have: the blank-cart region (no
            # label at all)
            if s_ == 'label':
                x.check('a cart without a label section has no label',
                        g.label is None)
                continue
            data = list(getattr(g, s_)._data)
            if REGION[s_][2] == 0:
                exp_abs = [0] * REGION[s_][0]
            elif s_ == 'music':
                exp_abs = MUSIC_DEFAULT * 64
            else:
                exp_abs = []
                for r in range(64):
                    exp_abs += [0] * 64 + [0, 1 if r == 0 else 16, 0, 0]
            x.check('an absent section loads as the blank-cart region',
                    data == exp_abs, info=s_)
            continue
        sz, rb, default = REGION[s_]
        data = getattr(g, s_)._data
        x.check('a region loaded from a trimmed section has its full size',
                len(data) == sz, info='%s: %d' % (s_, len(data)))
        if len(data) != sz:
            continue
        mems = row_mem[s_]
        for r, mem in enumerate(mems):
            x.check('rows present load to their memory bytes',
                    list(data[r * rb:(r + 1) * rb]) == mem)
        rest = list(data[len(mems) * rb:])
        if default == 0:
            x.check('omitted rows are zero', not any(rest))
        elif s_ == 'music':
            x.check('omitted music patterns are the silent default',
                    rest == MUSIC_DEFAULT * (len(rest) // 4))
        elif s_ == 'sfx':
            # an unused pattern: no notes, editor mode 0, no loop, speed 16 -
            # speed 1 for pattern 0 (the rows 0001000... / 0010000... of a
            # blank cart as PICO-8 writes it, see tests/testdata/empty.p8)
            exp_rest = []
            for r in range(len(mems), 64):
                exp_rest += [0] * 64 + [0, 1 if r == 0 else 16, 0, 0]
            x.check('omitted sfx patterns are the blank-cart defaults '
                    '(speed 16, pattern 0: speed 1)', rest == exp_rest)
    # the cart memory image picotool would store in a .p8.png
    image = b''.join(bytes(getattr(g, s_).to_bytes())
                     for s_ in ('gfx', 'map', 'gff', 'music', 'sfx'))
    x.check('the memory image is 0x4300 bytes (code starts at 0x4300)',
            len(image) == 0x4300)


from props import C04 as _C04

Q = {'_budget': 200}
HARNESSES = [
    # memory layout of the PNG (gfx|map|gff|music|sfx|code|version): the
    # C04 round-trip harness also compares every symbolic row with the pixel
    # the format prescribes for it
    Harness('png_layout', _C04.roundtrip,
            quick=[dict(Q, ncode=0, body='x=1\n',
                        rows={'gfx': [127], 'map': [0], 'gff': [1],
                              'music': [0], 'sfx': [0]},
                        label_px=[0x2000, 0x3000, 0x3100, 0x3200])]),
    Harness('gfx', gfx, quick=[dict(Q, rows=1)],
            thorough=[dict(Q, rows=4, _budget=600)]),
    Harness('plain', plain, quick=[dict(Q, sec='gff', rows=1),
                                   dict(Q, sec='map', rows=1)],
            thorough=[dict(Q, sec='gff', rows=2),
                      dict(Q, sec='map', rows=3, _budget=600)]),
    Harness('sfx', sfx, quick=[dict(Q, ids=[0]), dict(Q, ids=[63])],
            thorough=[dict(Q, ids=[0, 1, 31, 62, 63], _budget=600)]),
    Harness('music', music, quick=[dict(Q, patterns=2)],
            thorough=[dict(Q, patterns=64)]),
    Harness('trimmed', trimmed,
            quick=[dict(Q, sec=s_) for s_ in ORDER]),
    Harness('png_pixels', png_pixels, quick=[dict(Q, w=3, h=2, n=4)],
            thorough=[dict(Q, w=160, h=2, n=250, _budget=600),
                      dict(Q, w=5, h=3, n=15), dict(Q, w=5, h=3, n=0)]),
]
