"""C17 - section accessors read back what was set and touch nothing else.

One accessor step from an arbitrary state: region contents are unconstrained
z3 arrays, ids / coordinates / offsets / values are symbolic within the
documented contract; the oracle is ref/cartmodel.  Histories follow by
induction (the only invariant is the region sizes, which no accessor
changes)."""
from symx.api import Harness
from symx import hx
from symx.hx import And, Or, Not, Ite
from ref import cartmodel as M
from pico8.gfx.gfx import Gfx
from pico8.map.map import Map
from pico8.gff.gff import Gff
from pico8.music.music import Music
from pico8.sfx.sfx import Sfx

ENCODED = [
    'pico8.gfx.gfx.Gfx.get_sprite', 'pico8.gfx.gfx.Gfx.set_sprite',
    'pico8.map.map.Map.get_cell', 'pico8.map.map.Map.set_cell',
    'pico8.map.map.Map.get_rect_tiles', 'pico8.map.map.Map.set_rect_tiles',
    'pico8.map.map.Map.get_rect_pixels',
    'pico8.gff.gff.Gff.get_flags/set_flags/clear_flags/reset_flags',
    'pico8.sfx.sfx.Sfx.get_note/set_note/get_properties/set_properties',
    'pico8.music.music.Music.get_channel/set_channel/get_properties/'
    'set_properties']
ASSUMPTIONS = [
    'regions have nominal sizes; contents arbitrary',
    'arguments within the documented contract (ids 0..255, map x 0..127, '
    'y 0..63 with a Gfx attached, pixel values 0..16, tile values 0..255, '
    'offsets >= 0, get_rect_tiles/pixels obey their own assert y+height<=64)',
    'histories of calls follow by induction from the one-step lemmas',
]
OUTSIDE = ['sprite/rect blocks larger than the stated shapes',
           'offsets above 200', 'negative offsets (outside the contract)',
           'Map without an attached Gfx and y > 31 (contract violation)']


def gfx_of(x, name='gfx'):
    m = x.mem(name, 8192)
    return hx.made(Gfx, m), hx.snap(m)


def same_rows(got, exp):
    """Per-element obligations: got (rows from the implementation) equals
    exp (list of lists)."""
    if len(got) != len(exp):
        return [False]
    conds = []
    for g, e in zip(got, exp):
        if len(g) != len(e):
            return [False]
        for a, b in zip(g, e):
            conds.append(a == b)
    return conds


# --- gfx ---------------------------------------------------------------------

def get_sprite(x, p):
    gfx, old = gfx_of(x)
    idn = x.int('id', 0, 255)
    tw, th = p['tw'], p['th']
    try:
        got = gfx.get_sprite(idn, tw, th)
    except Exception as e:
        x.check('get_sprite does not raise', False, info=repr(e))
        return
    exp = M.sprite_expected(old, idn, tw, th)
    x.out('dims', [len(got)] + [len(r) for r in got])
    x.out('row0', list(got[0]))
    x.check_all('get_sprite returns the documented pixels',
                same_rows(got, exp))
    a = x.int('addr', 0, 8191)
    x.check('get_sprite leaves memory unchanged', gfx._data[a] == old[a])


def mk_block(x, name, shape, lo, hi):
    rows = []
    for r, n in enumerate(shape):
        rows.append(x.ints('%s%d' % (name, r), n, lo, hi))
    return rows


def set_sprite(x, p):
    gfx, old = gfx_of(x)
    idn = x.int('id', 0, 255)
    xoff = x.int('xoff', 0, p['maxoff'])
    yoff = x.int('yoff', 0, p['maxoff'])
    sprite = mk_block(x, 'px', p['shape'], 0, 16)
    try:
        gfx.set_sprite(idn, sprite, tile_x_offset=xoff, tile_y_offset=yoff)
    except Exception as e:
        x.check('set_sprite clips instead of raising', False, info=repr(e))
        return
    a = x.int('addr', 0, 8191)
    exp = M.set_sprite_expected_byte(old, a, idn, sprite, xoff, yoff)
    new = gfx._data[a]
    x.out('new', new)
    x.check('set_sprite: byte at fresh address as modelled', new == exp)
    x.check('size kept', len(gfx._data) == 8192)


# --- map ---------------------------------------------------------------------

def map_of(x):
    gfx, oldg = gfx_of(x)
    mm = x.mem('map', 4096)
    mp = hx.made(Map, mm, gfx=gfx)
    return mp, gfx, hx.snap(mm), oldg


def cells(x, p):
    mp, gfx, oldm, oldg = map_of(x)
    cx = x.int('x', 0, 127)
    cy = x.int('y', 0, 63)
    try:
        got = mp.get_cell(cx, cy)
    except Exception as e:
        x.check('get_cell does not raise', False, info=repr(e))
        return
    x.out('got', got)
    x.check('get_cell reads the shared-memory layout',
            got == M.cell_get(oldm, oldg, cx, cy))
    val = x.int('val', 0, 255)
    try:
        mp.set_cell(cx, cy, val)
    except Exception as e:
        x.check('set_cell does not raise', False, info=repr(e))
        return
    x.check('set then get', mp.get_cell(cx, cy) == val)
    a = x.int('addr', 0, 8191)
    am = x.int('addrm', 0, 4095)
    expm = Ite(And(cy <= 31, cy * 128 + cx == am), val, oldm[am])
    expg = Ite(And(cy >= 32, 4096 + (cy - 32) * 128 + cx == a), val, oldg[a])
    x.check('set_cell: map memory elsewhere unchanged', mp._data[am] == expm)
    x.check('set_cell: gfx memory elsewhere unchanged', gfx._data[a] == expg)


def get_rect(x, p):
    mp, gfx, oldm, oldg = map_of(x)
    w, h = p['w'], p['h']
    if p.get('corners'):
        # concrete coordinates at every edge and at the seam between the two
        # halves of the map (row 31 / 32), memory still arbitrary: this also
        # decides implementations that slice rows instead of reading cells
        cx = x.choice('x', [0, 1, 126, 127])
        cy = x.choice('y', [0, 30, 31, 32, 33, 62, 63])
    else:
        cx = x.int('x', 0, 127)
        cy = x.int('y', 0, 63)        # documented: rows past 63 read as 0
    try:
        got = mp.get_rect_tiles(cx, cy, w, h)
    except Exception as e:
        x.check('get_rect_tiles does not raise', False, info=repr(e))
        return
    x.out('row0', list(got[0]))
    x.check_all('get_rect_tiles pads off-edge cells with 0',
                same_rows(got, M.rect_tiles_expected(oldm, oldg, cx, cy, w,
                                                     h)))


def set_rect(x, p):
    mp, gfx, oldm, oldg = map_of(x)
    rect = mk_block(x, 't', p['shape'], 0, 255)
    cx = x.int('x', 0, 127)
    cy = x.int('y', 0, 63)
    arg = rect
    if p.get('one_shot'):
        # "an iterable of iterables": generators and iterators that can be
        # walked only once
        arg = (iter(row) for row in rect)
    try:
        mp.set_rect_tiles(arg, cx, cy)
    except Exception as e:
        x.check('set_rect_tiles clips instead of raising', False,
                info=repr(e))
        return
    a = x.int('addr', 0, 8191)
    am = x.int('addrm', 0, 4095)
    x.out('m', mp._data[am])
    x.check('set_rect_tiles: map byte as modelled', mp._data[am] ==
            M.set_rect_expected(oldm, oldg, 'map', am, rect, cx, cy))
    x.check('set_rect_tiles: gfx byte as modelled', gfx._data[a] ==
            M.set_rect_expected(oldm, oldg, 'gfx', a, rect, cx, cy))


def rect_pixels(x, p):
    mp, gfx, oldm, oldg = map_of(x)
    h = p.get('h', 1)
    cx = x.int('x', 0, 127)
    cy = x.int('y', 0, 63)
    try:
        got = mp.get_rect_pixels(cx, cy, 1, h)
    except Exception as e:
        x.check('get_rect_pixels does not raise', False, info=repr(e))
        return
    exp = []
    for tr in range(h):
        inside = cy + tr <= 63
        tid = Ite(inside, M.cell_get(oldm, oldg, cx, Ite(inside, cy + tr, 0)),
                  0)
        for r in range(8):
            row = []
            for c in range(8):
                v = M.px_get(oldg, (tid % 16) * 8 + c, (tid // 16) * 8 + r)
                row.append(Ite(tid == 0, 0, v))
            exp.append(row)
    x.out('row0', list(got[0]))
    x.check_all('get_rect_pixels renders the tiles (id 0 and rows below the '
                'map empty)', same_rows(got, exp))


# --- gff ----------------------------------------------------------------------

def gff(x, p):
    m = x.mem('gff', 256)
    old = hx.snap(m)
    g = hx.made(Gff, m)
    idn = x.int('id', 0, 255)
    fl = x.int('flags', 0, 255)
    a = x.int('addr', 0, 255)
    op = p['op']
    x.check('get_flags', g.get_flags(idn, fl) == (old[idn] & fl))
    if op == 'set':
        g.set_flags(idn, fl)
        exp = old[idn] | fl
    elif op == 'clear':
        g.clear_flags(idn, fl)
        exp = old[idn] & (255 - fl)
    else:
        g.reset_flags(idn, fl)
        exp = fl
    x.out('after', g._data[idn])
    x.check(op + ': all eight flags as documented',
            g.get_flags(idn, 255) == exp)
    x.check(op + ': other tiles unchanged',
            g._data[a] == Ite(a == idn, exp, old[a]))


# --- sfx ----------------------------------------------------------------------

def opt(x, name, lo, hi):
    """None or a symbolic value in range (forks on None-ness)."""
    if x.choice(name + '?', [False, True]):
        return x.int(name, lo, hi)
    return None


def sfx_note(x, p):
    m = x.mem('sfx', 4352)
    old = hx.snap(m)
    s = hx.made(Sfx, m)
    idn = x.int('id', 0, 63)
    note = x.int('note', 0, 31)
    base = idn * 68 + note * 2
    op, ow, ov, oe = M.note_fields(old[base], old[base + 1])
    got = s.get_note(idn, note)
    x.out('get', list(got))
    x.check('get_note decodes the 16-bit note word',
            And(got[0] == op, got[1] == ow, got[2] == ov, got[3] == oe))
    pitch = opt(x, 'pitch', 0, 63)
    wave = opt(x, 'wave', 0, 15)
    vol = opt(x, 'vol', 0, 7)
    eff = opt(x, 'eff', 0, 7)
    try:
        s.set_note(idn, note, pitch=pitch, waveform=wave, volume=vol,
                   effect=eff)
    except Exception as e:
        x.check('set_note accepts in-range values', False, info=repr(e))
        return
    ep = op if pitch is None else pitch
    ew = ow if wave is None else wave
    ev = ov if vol is None else vol
    ee = oe if eff is None else eff
    got2 = s.get_note(idn, note)
    x.check('set_note then get_note (None leaves a field unchanged)',
            And(got2[0] == ep, got2[1] == ew, got2[2] == ev, got2[3] == ee))
    l, h = M.note_word(ep, ew, ev, ee)
    a = x.int('addr', 0, 4351)
    exp = Ite(a == base, l, Ite(a == base + 1, h, old[a]))
    x.out('byte', s._data[a])
    x.check('set_note: memory as the format prescribes, rest unchanged',
            s._data[a] == exp)


def sfx_props(x, p):
    m = x.mem('sfx', 4352)
    old = hx.snap(m)
    s = hx.made(Sfx, m)
    idn = x.int('id', 0, 63)
    got = s.get_properties(idn)
    x.check('get_properties', And(*[got[k] == old[idn * 68 + 64 + k]
                                    for k in range(4)]))
    vals = [opt(x, n, 0, 255) for n in ('mode', 'dur', 'ls', 'le')]
    s.set_properties(idn, editor_mode=vals[0], note_duration=vals[1],
                     loop_start=vals[2], loop_end=vals[3])
    a = x.int('addr', 0, 4351)
    exp = old[a]
    for k in range(4):
        if vals[k] is not None:
            exp = Ite(a == idn * 68 + 64 + k, vals[k], exp)
    got2 = s.get_properties(idn)
    x.out('props', list(got2))
    x.check('set_properties then get_properties', And(*[
        got2[k] == (old[idn * 68 + 64 + k] if vals[k] is None else vals[k])
        for k in range(4)]))
    x.check('set_properties: rest unchanged', s._data[a] == exp)


# --- music --------------------------------------------------------------------

def music(x, p):
    m = x.mem('music', 256)
    old = hx.snap(m)
    mu = hx.made(Music, m)
    idn = x.int('id', 0, 63)
    ch = x.int('ch', 0, 3)
    ob = old[idn * 4 + ch]
    got = mu.get_channel(idn, ch)
    silent = (ob & 0x7f) > 63
    if got is None:
        x.check('get_channel None only for silent channels', silent)
    else:
        x.check('get_channel returns the sfx id',
                And(Not(silent), got == (ob & 0x7f)))
    pr = mu.get_properties(idn)
    x.check('get_properties reads the three flag bits', And(
        pr[0] == ((old[idn * 4] & 0x80) != 0),
        pr[1] == ((old[idn * 4 + 1] & 0x80) != 0),
        pr[2] == ((old[idn * 4 + 2] & 0x80) != 0)))
    a = x.int('addr', 0, 255)
    if p['op'] == 'channel':
        pat = opt(x, 'pat', 0, 63)
        mu.set_channel(idn, ch, pat)
        got2 = mu.get_channel(idn, ch)
        if pat is None:
            x.check('set_channel(None) silences', got2 is None)
        else:
            x.check('set_channel then get_channel',
                    And(got2 is not None, got2 == pat))
        newlow = (0x41 + ch) if pat is None else pat
        exp = Ite(a == idn * 4 + ch, (ob & 0x80) | newlow, old[a])
        x.out('byte', mu._data[a])
        x.check('set_channel keeps the flag bit and other bytes',
                mu._data[a] == exp)
    else:
        fl = [x.choice(n, [None, False, True])
              for n in ('begin', 'end', 'stop')]
        mu.set_properties(idn, begin=fl[0], end=fl[1], stop=fl[2])
        exp = old[a]
        for k in range(3):
            if fl[k] is not None:
                exp = Ite(a == idn * 4 + k,
                          (old[idn * 4 + k] & 0x7f) | (0x80 if fl[k] else 0),
                          exp)
        pr2 = mu.get_properties(idn)
        x.out('byte', mu._data[a])
        x.check('set_properties then get_properties', And(*[
            pr2[k] == (pr[k] if fl[k] is None else fl[k]) for k in range(3)]))
        x.check('set_properties keeps channel ids and other bytes',
                mu._data[a] == exp)


# --- read, write elsewhere, read again ------------------------------------------

def rwr(x, p):
    """A read, then a write through the same or another object on the shared
    memory, then the same read again: the second read reflects memory as it
    is now - the objects keep nothing that a write elsewhere makes stale.
    (The effect of each write on memory is the subject of the other
    harnesses; here the expected value is computed from memory after it.)"""
    kind = p['kind']
    if kind in ('sprite-via-map', 'cell-via-sprite', 'pixels-via-cell',
                'sprite-via-sprite'):
        mp, gfx, oldm, oldg = map_of(x)
        idn = x.int('id', 0, 255)
        cx = x.int('x', 0, 127)
        cy = x.int('y', 0, 63)
        val = x.int('val', 0, 255)
        try:
            if kind == 'sprite-via-map':
                first = gfx.get_sprite(idn, 1, 1)
                mp.set_cell(cx, cy, val)
                newg = hx.snap(gfx._data)
                got = gfx.get_sprite(idn, 1, 1)
                x.check_all('get_sprite after a map edit of the shared rows',
                            same_rows(got, M.sprite_expected(newg, idn, 1,
                                                             1)))
            elif kind == 'sprite-via-sprite':
                id2 = x.int('id2', 0, 255)
                first = gfx.get_sprite(idn, 1, 1)
                gfx.set_sprite(id2, [[val & 15, (val >> 4) & 15]])
                newg = hx.snap(gfx._data)
                got = gfx.get_sprite(idn, 1, 1)
                x.check_all('get_sprite after set_sprite elsewhere',
                            same_rows(got, M.sprite_expected(newg, idn, 1,
                                                             1)))
            elif kind == 'cell-via-sprite':
                first = mp.get_cell(cx, cy)
                gfx.set_sprite(idn, [[val & 15, (val >> 4) & 15]])
                newg = hx.snap(gfx._data)
                got = mp.get_cell(cx, cy)
                x.check('get_cell after a sprite edit of the shared rows',
                        got == M.cell_get(oldm, newg, cx, cy))
                r = mp.get_rect_tiles(cx, cy, 1, 1)
                x.check('get_rect_tiles after a sprite edit',
                        r[0][0] == M.cell_get(oldm, newg, cx, cy))
            else:
                first = mp.get_rect_pixels(cx, cy, 1, 1)
                cx2 = x.int('x2', 0, 127)
                cy2 = x.int('y2', 0, 63)
                mp.set_cell(cx2, cy2, val)
                newg, newm = hx.snap(gfx._data), hx.snap(mp._data)
                got = mp.get_rect_pixels(cx, cy, 1, 1)
                tid = M.cell_get(newm, newg, cx, cy)
                exp = []
                for r in range(8):
                    row = []
                    for c in range(8):
                        v = M.px_get(newg, (tid % 16) * 8 + c,
                                     (tid // 16) * 8 + r)
                        row.append(Ite(tid == 0, 0, v))
                    exp.append(row)
                x.check_all('get_rect_pixels after a map edit',
                            same_rows(got, exp))
        except Exception as e:
            x.check('accessors do not raise inside their contract', False,
                    info=repr(e))
        return
    if kind == 'gff':
        m = x.mem('gff', 256)
        g = hx.made(Gff, m)
        idn, id2 = x.int('id', 0, 255), x.int('id2', 0, 255)
        fl, mask = x.int('flags', 0, 255), x.int('mask', 0, 255)
        op = x.choice('op', ['set', 'clear', 'reset'])
        first = g.get_flags(idn, mask)
        getattr(g, op + '_flags')(id2, fl)
        new = hx.snap(g._data)
        x.check('get_flags after an edit of another (or the same) tile',
                g.get_flags(idn, mask) == (new[idn] & mask))
        return
    if kind == 'sfx':
        m = x.mem('sfx', 4352)
        s = hx.made(Sfx, m)
        idn, id2 = x.int('id', 0, 63), x.int('id2', 0, 63)
        note, note2 = x.int('note', 0, 31), x.int('note2', 0, 31)
        first = s.get_note(idn, note)
        pr0 = s.get_properties(idn)
        if x.choice('write', ['note', 'props']) == 'note':
            s.set_note(id2, note2, pitch=x.int('pitch', 0, 63),
                       volume=x.int('vol', 0, 7))
        else:
            s.set_properties(id2, note_duration=x.int('dur', 0, 255),
                             loop_start=x.int('ls', 0, 255))
        new = hx.snap(s._data)
        base = idn * 68 + note * 2
        ep, ew, ev, ee = M.note_fields(new[base], new[base + 1])
        got = s.get_note(idn, note)
        x.check('get_note after an edit elsewhere in sfx memory',
                And(got[0] == ep, got[1] == ew, got[2] == ev, got[3] == ee))
        pr = s.get_properties(idn)
        x.check('get_properties after an edit elsewhere', And(*[
            pr[k] == new[idn * 68 + 64 + k] for k in range(4)]))
        return
    m = x.mem('music', 256)
    mu = hx.made(Music, m)
    idn, id2 = x.int('id', 0, 63), x.int('id2', 0, 63)
    ch, ch2 = x.int('ch', 0, 3), x.int('ch2', 0, 3)
    first = mu.get_channel(idn, ch)
    pr0 = mu.get_properties(idn)
    if x.choice('write', ['channel', 'props']) == 'channel':
        mu.set_channel(id2, ch2, x.int('pat', 0, 63))
    else:
        mu.set_properties(id2, begin=x.choice('begin', [None, True, False]),
                          end=x.choice('end', [None, True, False]))
    new = hx.snap(mu._data)
    nb = new[idn * 4 + ch]
    got = mu.get_channel(idn, ch)
    if got is None:
        x.check('get_channel after an edit elsewhere (silent)',
                (nb & 0x7f) > 63)
    else:
        x.check('get_channel after an edit elsewhere',
                And((nb & 0x7f) <= 63, got == (nb & 0x7f)))
    pr = mu.get_properties(idn)
    x.check('get_properties after an edit elsewhere', And(*[
        pr[k] == ((new[idn * 4 + k] & 0x80) != 0) for k in range(3)]))


def copies(x, p):
    """Section objects made from the same bytes (the constructor, from_bytes,
    a snapshot taken with from_bytes(to_bytes())) are separate carts' worth
    of memory: an edit of one changes neither the others nor the caller's
    buffer."""
    cls = {'gff': Gff, 'gfx': Gfx, 'music': Music}[p['cls']]
    buf = x.bytearray('buf', 8)
    orig = hx.snap(buf)
    a = cls(data=buf, version=8)
    b = cls.from_bytes(buf, version=8)
    c = cls.from_bytes(a.to_bytes(), version=8)
    v = x.int('v', 0, 255)
    k = x.int('k', 0, 7)
    if cls is Gff:
        a.reset_flags(k, v)
    elif cls is Music:
        a.set_channel(k // 4, k % 4, v & 63)
    else:
        a._data[k] = v
    j = x.int('j', 0, 7)
    x.check('an object made from the same buffer is not changed',
            b._data[j] == orig[j])
    x.check('a snapshot made with from_bytes(to_bytes()) is not changed',
            c._data[j] == orig[j])
    x.check('the caller\'s buffer is not changed', buf[j] == orig[j])


# --- the loaded cart: map rows 32-63 live in *its* sprite memory -----------------

P8_HEAD = (b'pico-8 cartridge // http://www.pico-8.com\n', b'version 33\n',
           b'__lua__\n', b'x=1\n')
P8_SEC = {'gfx': (b'__gfx__\n', b'0123456789abcdef' * 8 + b'\n'),
          'map': (b'__map__\n', b'0a0b0c0d' * 32 + b'\n'),
          'gff': (b'__gff__\n', b'01' * 128 + b'\n'),
          'label': (b'__label__\n', b'76543210' * 16 + b'\n')}
P8_LAYOUTS = [('gfx', 'map'), ('map', 'gfx'), ('gfx',), ('map',), (),
              ('gfx', 'gff'), ('map', 'gff', 'gfx'), ('gfx', 'label', 'map'),
              ('label', 'gfx'), ('map', 'gfx', 'gfx'), ('gfx', 'map', 'map')]


def linkage(x, p):
    """However a cart object came to be (read from a .p8 with its sections
    in any order or absent - PICO-8 omits empty sections -, read from a
    .p8.png, made empty), edits of map rows 32-63 through game.map land in
    game.gfx, and game.map reads that memory."""
    import os
    from pico8.game.game import Game
    from pico8.game.formatter.p8 import P8Formatter
    from pico8.game.formatter.p8png import P8PNGFormatter
    from pico8.game import file as gamefile
    how = x.choice('loader', ['p8', 'p8png', 'empty', 'file'])
    repo = os.environ.get('SYMX_REPO', '/repo')
    try:
        if how == 'p8':
            layout = x.choice('layout', P8_LAYOUTS)
            text = list(P8_HEAD)
            for sec in layout:
                text.extend(P8_SEC[sec])
            g = P8Formatter.from_file(hx.MemStream(b''.join(text)),
                                      filename='x.p8')
        elif how == 'p8png':
            with open(os.path.join(repo, 'tests', 'testdata',
                                   'test_cart.p8.png'), 'rb') as fh:
                g = P8PNGFormatter.from_file(fh, filename='x.p8.png')
        elif how == 'file':
            name = x.choice('fixture', ['test_cart.p8', 'test_cart.p8.png',
                                        'test_cart_memdump.p8'])
            g = gamefile.from_file(os.path.join(repo, 'tests', 'testdata',
                                                name))
        else:
            g = Game.make_empty_game(filename='x.p8')
    except Exception as e:
        x.check('cart loads', False, info=repr(e))
        return
    x.check('regions have their sizes', And(len(g.gfx._data) == 8192,
                                           len(g.map._data) == 4096))
    gm = x.mem('gfx', 8192)
    mm = x.mem('map', 4096)
    oldg, oldm = hx.snap(gm), hx.snap(mm)
    g.gfx._data = gm
    g.map._data = mm
    cx = x.int('x', 0, 127)
    cy = x.int('y', 0, 63)
    try:
        got = g.map.get_cell(cx, cy)
    except Exception as e:
        x.check('get_cell on the loaded cart does not raise', False,
                info=repr(e))
        return
    x.out('got', got)
    x.check('game.map reads game.gfx for rows 32-63',
            got == M.cell_get(oldm, oldg, cx, cy))
    val = x.int('val', 0, 255)
    try:
        g.map.set_cell(cx, cy, val)
    except Exception as e:
        x.check('set_cell on the loaded cart does not raise', False,
                info=repr(e))
        return
    a = x.int('addr', 0, 8191)
    expg = Ite(And(cy >= 32, 4096 + (cy - 32) * 128 + cx == a), val, oldg[a])
    x.check('game.map edits of rows 32-63 land in game.gfx',
            g.gfx._data[a] == expg)
    x.check('set then get on the loaded cart', g.map.get_cell(cx, cy) == val)


Q = {'_budget': 400}
HARNESSES = [
    Harness('get_sprite', get_sprite, logic='QF_AUFBV',
            quick=[dict(Q, tw=1, th=1), dict(Q, tw=2, th=2)],
            thorough=[dict(Q, tw=a, th=b) for a in (1, 2, 3)
                      for b in (1, 2, 3)]),
    Harness('set_sprite', set_sprite, logic='QF_AUFBV',
            quick=[dict(Q, shape=[2], maxoff=130),
                   dict(Q, shape=[1, 2], maxoff=130)],
            thorough=[dict(Q, shape=[2], maxoff=200),
                      dict(Q, shape=[3, 1, 2], maxoff=200),
                      dict(Q, shape=[2, 3, 3], maxoff=200, _budget=900)]),
    Harness('cells', cells, logic='QF_AUFBV', quick=[Q]),
    Harness('get_rect', get_rect, logic='QF_AUFBV',
            quick=[dict(Q, w=2, h=2), dict(Q, w=2, h=3, corners=True),
                   dict(Q, w=3, h=1, corners=True)],
            thorough=[dict(Q, w=a, h=b) for a in (1, 2, 3) for b in (1, 3)]),
    Harness('set_rect', set_rect, logic='QF_AUFBV',
            quick=[dict(Q, shape=[2]), dict(Q, shape=[1, 2]),
                   dict(Q, shape=[2, 1], one_shot=True)],
            thorough=[dict(Q, shape=[2]), dict(Q, shape=[3, 1, 2]),
                      dict(Q, shape=[3, 3, 3], _budget=900)]),
    Harness('rect_pixels', rect_pixels, logic='QF_AUFBV',
            quick=[Q, dict(Q, h=2)]),
    Harness('gff', gff, logic='QF_AUFBV',
            quick=[dict(Q, op=o) for o in ('set', 'clear', 'reset')]),
    Harness('sfx_note', sfx_note, logic='QF_AUFBV', quick=[Q]),
    Harness('sfx_props', sfx_props, logic='QF_AUFBV', quick=[Q]),
    Harness('linkage', linkage, logic='QF_AUFBV', quick=[Q]),
    Harness('copies', copies, logic='QF_AUFBV',
            quick=[dict(Q, cls=c) for c in ('gff', 'gfx', 'music')]),
    Harness('rwr', rwr, logic='QF_AUFBV',
            quick=[dict(Q, kind=k) for k in (
                'sprite-via-map', 'sprite-via-sprite', 'cell-via-sprite',
                'pixels-via-cell', 'gff', 'sfx', 'music')]),
    Harness('music', music, logic='QF_AUFBV',
            quick=[dict(Q, op='channel'), dict(Q, op='props')]),
]
