"""C18 - raw cart-memory writes land at the addressed bytes and only there."""
from symx.api import Harness
from symx import hx
from pico8.game.game import Game
from pico8.gfx.gfx import Gfx
from pico8.map.map import Map
from pico8.gff.gff import Gff
from pico8.music.music import Music
from pico8.sfx.sfx import Sfx

ENCODED = ['pico8.game.game.Game.write_cart_data']
ASSUMPTIONS = [
    'regions have their nominal sizes before the call (0x2000/0x1000/0x100/'
    '0x100/0x1100) - the invariant the check itself re-establishes',
    'data is a bytes-like value; region and data contents are uninterpreted',
    'sequences of writes follow by induction on the one-step lemma; the '
    'hypothesis (nominal sizes, regions editable and not shared with the '
    'argument) is re-checked by a second, one-byte write into every region',
]
OUTSIDE = ['start_addr < 0 or > 0x4310; data longer than 0x4310 bytes '
           '(both rejected by the same comparison, which is linear)']

REGIONS = (('gfx', Gfx, 0x0, 0x2000), ('map', Map, 0x2000, 0x3000),
           ('gff', Gff, 0x3000, 0x3100), ('music', Music, 0x3100, 0x3200),
           ('sfx', Sfx, 0x3200, 0x4300))


def write(x, p):
    g = Game()
    olds = {}
    for name, cls, lo, hi in REGIONS:
        m = x.mseq(name, hi - lo, hi - lo)
        olds[name] = hx.snap(m)
        setattr(g, name, hx.made(cls, m))
    start = x.int('start', 0, p['max'])
    data = x.mseq('data', 0, p['max'], mutable=False)
    n = len(data)
    a = x.int('addr', 0, 0x42ff)
    raised = False
    try:
        g.write_cart_data(data, start)
    except ValueError:
        raised = True
    except Exception as e:
        x.check('no unexpected exception', False, info=repr(e))
        return
    x.out('raised', raised)
    overflow = start + n > 0x4300
    x.check('rejected iff past 0x4300', raised == overflow)
    for name, cls, lo, hi in REGIONS:
        x.check('size of ' + name + ' kept',
                hx.length(getattr(g, name)._data) == hi - lo)
    for name, cls, lo, hi in REGIONS:
        if lo <= a and a < hi:
            x.tag('addr in ' + name)
            region = getattr(g, name)._data
            try:
                new = region[a - lo]
            except IndexError:
                x.check('byte still addressable in ' + name, False)
                return
            old = olds[name][a - lo]
            expect = old
            if not raised:
                if start <= a and a < start + n:
                    expect = data[a - start]
            x.out('new', new)
            x.check('content at fresh address', new == expect)
    # Second step of a history: every region must still be an ordinary,
    # editable region of the cart that shares nothing with the caller's
    # argument (the induction hypothesis of the one-step lemma), shown by
    # actually making a further one-byte write into each region.
    if raised:
        return
    rebind = x.choice('rebind', [False, True])
    for name, cls, lo, hi in REGIONS:
        region = getattr(g, name)._data
        x.check('region ' + name + ' is not the caller\'s object',
                region is not data)
        if rebind:
            # the user replaces the region object (game.gfx = Gfx.from_bytes(
            # ...), as build does with sections of other carts): the next
            # write must go to the object the game has now
            setattr(g, name, hx.made(cls, hx.mutable_copy(region)))
        v2 = x.int('second.' + name, 0, 255)
        try:
            g.write_cart_data(bytes([v2]), lo + 1)
            back = getattr(g, name)._data[1]
        except Exception as e:
            x.check('a second write into ' + name + ' works', False,
                    info=repr(e))
            return
        x.check('second write into ' + name + ' reads back', back == v2)
        x.check('size of ' + name + ' kept by the second write',
                hx.length(getattr(g, name)._data) == hi - lo)


def alias(x, p):
    """The data handed to write_cart_data is the live buffer of one of the
    cart's own regions (game.gfx.to_bytes() returns it): copying a region
    onto another address must still write the bytes the buffer held when the
    call was made (memmove, not memcpy, semantics)."""
    g = Game()
    olds = {}
    for name, cls, lo, hi in REGIONS:
        m = x.mseq(name, hi - lo, hi - lo)
        olds[name] = hx.snap(m)
        setattr(g, name, hx.made(cls, m))
    src = x.choice('source', [r[0] for r in REGIONS])
    data = getattr(g, src).to_bytes()
    before = olds[src]
    n = len(before) if not x.symbolic else hx.length(before)
    start = x.int('start', 0, 0x4300)
    a = x.int('addr', 0, 0x42ff)
    raised = False
    try:
        g.write_cart_data(data, start)
    except ValueError:
        raised = True
    except Exception as e:
        x.check('no unexpected exception', False, info=repr(e))
        return
    x.check('rejected iff past 0x4300', raised == (start + n > 0x4300))
    for name, cls, lo, hi in REGIONS:
        if lo <= a and a < hi:
            new = getattr(g, name)._data[a - lo]
            expect = olds[name][a - lo]
            if not raised:
                if start <= a and a < start + n:
                    expect = before[a - start]
            x.out('new', new)
            x.check('content at fresh address = the buffer as it was when '
                    'the call was made', new == expect)


STARTS = [0x1ff8, 0x2000, 0x2ff8, 0x3008, 0x30f8, 0x3100, 0x31f8, 0x3200]
LENS = [8, 16, 0x110]


def history(x, p):
    """Two writes in a row on a cart with concrete contents (the solver picks
    addresses around every region boundary, lengths and what is written):
    after each write the cart equals a flat 0x4300-byte memory that received
    the same writes.  Concrete buffers, so whatever the implementation does
    with them (comparisons, searches, slices) runs as it is."""
    g = Game.make_empty_game(filename='x.p8')
    fill = x.choice('fill', ['zeros', 'pattern'])
    flat = bytearray(0x4300)
    for name, cls, lo, hi in REGIONS:
        d = getattr(g, name)._data
        for k in range(hi - lo):
            v = 0 if fill == 'zeros' else (
                7 if fill == 'same' else (k * 7 + lo // 256 + 1) % 256)
            d[k] = v
            flat[lo + k] = v
    for step in (1, 2):
        start = x.choice('start%d' % step, STARTS)
        n = x.choice('len%d' % step, LENS)
        kind = x.choice('data%d' % step, ['zeros', 'ramp'])
        if start + n > 0x4300:
            x.tag('n/a')
            return
        data = bytes({'zeros': 0, 'sevens': 7}.get(kind, (k + step) % 251)
                     if kind != 'ramp' else (k + step) % 251
                     for k in range(n))
        try:
            g.write_cart_data(data, start)
        except Exception as e:
            x.check('an in-range write does not raise', False, info=repr(e))
            return
        flat[start:start + n] = data
        got = b''.join(bytes(getattr(g, name)._data)
                       for name, cls, lo, hi in REGIONS)
        x.check('after write %d the cart equals the flat memory model' % step,
                got == bytes(flat))
        if got != bytes(flat):
            return
    x.out('sum', sum(flat) % 65536)


HARNESSES = [
    Harness('write', write, quick=[{'max': 0x4310, '_budget': 300}],
            logic='QF_AUFBV'),
    Harness('alias', alias, quick=[{'_budget': 300}], logic='QF_AUFBV'),
    Harness('history', history, quick=[{'_budget': 600}]),
]
