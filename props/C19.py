"""C19 - luamin keeps the two header comments PICO-8 reads as title/byline."""
from symx.api import Harness
from symx import hx
from symx.hx import And, Or, Not
from props import fmtkernel as K
from pico8.lua import lua, lexer

ENCODED = ['pico8.lua.lua.LuaMinifyTokenWriter.to_lines (header branch)',
           'pico8.lua.lua.Lua.get_title', 'pico8.lua.lua.Lua.get_byline']
ASSUMPTIONS = [
    'token sequences are those the lexer can produce (a line comment is '
    'followed by a line end or the end of input; blanks are maximal); '
    'comment bodies are symbolic; the output is re-read with the real lexer '
    '(checked under C07)',
]
OUTSIDE = ['programs with more tokens than the bound (the header logic only '
           'looks at tokens before the first code token)']

KINDS = ['c--', 'c//', 'blk', 'sp', 'nl', 'num', 'name']


def shapes(n):
    out = []

    def rec(prefix):
        if len(prefix) == n:
            out.append(list(prefix))
            return
        for k in KINDS:
            if prefix:
                last = prefix[-1]
                if last == 'sp' and k == 'sp':
                    continue
                if last in ('c--', 'c//') and k != 'nl':
                    continue
                if last in ('num', 'name') and k in ('num', 'name'):
                    continue        # adjacent words need a separator
            rec(prefix + [k])
    rec([])
    return out


def lua_of(tokens):
    l = lua.Lua(version=8)
    l._lexer._tokens = list(tokens)
    return l


def header(x, p):
    shape = x.choice('shape', shapes(p['k']))
    x.tag(' '.join(shape))
    toks = []
    for i, k in enumerate(shape):
        if k in ('c--', 'c//', 'blk', 'sp', 'nl'):
            toks.extend(K.make_run(x, [k], tag='t%d_' % i))
        elif k == 'num':
            toks.append(lexer.TokNumber(b'1'))
        else:
            toks.append(lexer.TokName(b't'))
    w = lua.LuaMinifyTokenWriter(tokens=toks, root=None, args={})
    try:
        out = b''.join(w.to_lines())
    except Exception as e:
        x.check('minifier does not raise', False, info=repr(e))
        return
    x.out('out', out)
    leading = []
    for t in toks:
        if isinstance(t, lexer.TokComment):
            leading.append(t)
        elif isinstance(t, (lexer.TokSpace, lexer.TokNewline)):
            continue
        else:
            break
    hdr = leading[:2]
    prefix = b''.join([c.code + b'\n' for c in hdr])
    x.check('output starts with the first two leading comments, verbatim, '
            'each on its own line', And(len(out) >= len(prefix),
                                        out[:len(prefix)] == prefix))
    if not (len(out) >= len(prefix) and out[:len(prefix)] == prefix):
        return
    rest = out[len(prefix):]
    lx = lexer.Lexer(version=8)
    try:
        lx.process_lines([rest])
    except Exception as e:
        x.check('the rest of the output lexes', False, info=repr(e))
        return
    sig_in = [t.code for t in toks if not isinstance(
        t, (lexer.TokComment, lexer.TokSpace, lexer.TokNewline))]
    sig_out = [t.code for t in lx.tokens if not isinstance(
        t, (lexer.TokComment, lexer.TokSpace, lexer.TokNewline))]
    ncomm = sum(1 for t in lx.tokens if isinstance(t, lexer.TokComment))
    x.check('later comments contribute nothing and no code became a comment',
            And(ncomm == 0, len(sig_in) == len(sig_out)))
    if len(sig_in) == len(sig_out):
        x.check('code tokens are unchanged',
                And(*[a == b for a, b in zip(sig_in, sig_out)]))
    # title / byline as PICO-8 and `stats` derive them
    lin = lua_of(toks)
    lx2 = lexer.Lexer(version=8)
    lx2.process_lines([out])
    lout = lua_of(lx2.tokens)
    # independent statement of what `stats` must report: the first token if
    # it is a comment (title), the third token if it is a comment (byline)
    exp_title = toks[0].code[2:].strip() if toks and isinstance(
        toks[0], lexer.TokComment) else None
    exp_byline = toks[2].code[2:].strip() if len(toks) >= 3 and isinstance(
        toks[2], lexer.TokComment) else None
    got_title = lin.get_title()
    got_byline = lin.get_byline()
    x.check('get_title reports the leading comment',
            (got_title is None) == (exp_title is None) and
            (exp_title is None or got_title == exp_title))
    x.check('get_byline reports the comment in third position',
            (got_byline is None) == (exp_byline is None) and
            (exp_byline is None or got_byline == exp_byline))
    tin = lin.get_title()
    if tin is not None:
        x.check('title survives minification', lout.get_title() == tin)
    bin_ = lin.get_byline()
    # get_byline looks at the third token; it is the byline PICO-8 shows only
    # when that token is the second header comment
    if (bin_ is not None and tin is not None and len(hdr) == 2 and
            toks[2] is hdr[1]):
        x.check('byline survives minification', lout.get_byline() == bin_)


CLI_SOURCES = [
    (b'-- my game\n-- by me\nx=1\ny=2', [b'-- my game', b'-- by me']),
    (b'-- my game\n-- by me\nreturn {a=1}\n', [b'-- my game', b'-- by me']),
    (b'-- my game\n-- by me\nx=1\nreturn\n', [b'-- my game', b'-- by me']),
    (b'--t\n\n//a\n\nfunction _init() end\n-- later\n', [b'--t', b'//a']),
    (b'-- only title\nx=1 -- not a header\n', [b'-- only title']),
    (b'x=1\n-- not a header\n', []),
]


def cli(x, p):
    """The commands a user runs: `p8tool luamin cart.p8` and `p8tool build
    --lua main.lua --lua-minify out.p8` (real argparse wiring, the writer
    run as often as the cart writer runs it), sources with and without a
    final line end: the written cart's code starts with the two header
    comments, each on its own line."""
    from props import clikit
    src, hdr = x.choice('source', CLI_SOURCES)
    final_nl = x.choice('final_nl', [True, False])
    if src.endswith(b'\n') and not final_nl:
        src = src[:-1]
    elif not src.endswith(b'\n') and final_nl:
        src = src + b'\n'
    cmd = x.choice('cmd', ['luamin', 'build', 'luamin twice'])
    if cmd == 'build':
        fs = clikit.MemFS(x, {'/w/main.lua': src})
        rc, exc = clikit.run_main(['build', '--lua', '/w/main.lua',
                                   '--lua-minify', '/w/out.p8'])
        dest = '/w/out.p8'
    else:
        fs = clikit.MemFS(x, {'/w/in.p8': clikit.p8_text(
            src if src.endswith(b'\n') else src + b'\n')})
        rc, exc = clikit.run_main(['luamin', '/w/in.p8'])
        dest = '/w/in_fmt.p8'
        if cmd == 'luamin twice' and exc is None and rc == 0:
            # minify the minified cart again: the header stays
            fs.files['/w/in.p8'] = fs.files[dest]
            rc, exc = clikit.run_main(['luamin', '/w/in.p8'])
    x.check('the command succeeds', And(exc is None, rc == 0),
            info=repr((rc, exc))[:160])
    if exc is not None or rc != 0 or dest not in fs.files:
        return
    out = clikit.lua_of(fs.files[dest])
    x.out('code', out)
    prefix = b''.join(c + b'\n' for c in hdr)
    x.check('the written code starts with the header comments, verbatim, '
            'each on its own line', out[:len(prefix)] == prefix)
    lx = lexer.Lexer(version=8)
    lx.process_lines([out[len(prefix):]])
    x.check('no other comment is written', not any(
        isinstance(t, lexer.TokComment) for t in lx.tokens))
    lx2 = lexer.Lexer(version=8)
    lx2.process_lines([out])
    l2 = lua_of(lx2.tokens)
    if len(hdr) >= 1:
        x.check('stats still reports the title',
                l2.get_title() == hdr[0][2:].strip())
    if len(hdr) == 2:
        x.check('stats still reports the byline',
                l2.get_byline() == hdr[1][2:].strip())


Q = {'_budget': 600}
HARNESSES = [
    Harness('header', header, quick=[dict(Q, k=1), dict(Q, k=2), dict(Q, k=3)],
            thorough=[dict(Q, k=k, _budget=2400) for k in (1, 2, 3, 4, 5)]),
    Harness('cli', cli, quick=[Q]),
]
