"""C20 - #include splices exactly the named file or cart tab at the include
line."""
import builtins
import os

from symx.api import Harness
from symx import hx, rt
from symx.hx import And, Or, Not
from pico8.game.formatter import p8

ENCODED = ['pico8.game.formatter.p8.process_includes',
           'pico8.game.formatter.p8.P8Formatter.from_file (cart with include '
           'lines, do_includes on and off)',
           'pico8.game.formatter.p8.lines_for_tab',
           'pico8.game.formatter.p8.TAB_LINE_RE / INCLUDE_LINE_RE',
           'pico8.game.formatter.p8.P8Formatter.from_file (include of a .p8)']
ASSUMPTIONS = [
    'tab separator lines are the lines PICO-8 writes: "-->8" followed only '
    'by white space; lines that merely start with "-->8" are outside the '
    'claim (the reference abstains)',
    'file system stub: the include target exists with the stated content; '
    'open() hands out an in-memory stream',
    'reference splice: the include line is replaced by the target\'s lines, '
    'each line ending in a line end (a missing final one is supplied), all '
    'other lines unchanged and in place',
]
OUTSIDE = ['.p8.png include targets (their reading is C04)',
           'the recogniser on lines with junk after the file name']

P8_TEXT = (b'pico-8 cartridge // http://www.pico-8.com\nversion 8\n__lua__\n'
           b't0=0\n-->8\nt1=1\n#include nested.lua\n-->8\nt2=3\n__gfx__\n')


def tabs(x, p):
    """lines_for_tab on lines that are symbolically separators or not."""
    n = p['n']
    lines = []
    is_sep = []
    for i in range(n):
        body = x.bytes('l%d' % i, p['L'])
        for k in range(p['L']):
            x.assume(And(body[k] != 10, body[k] != 13))
        line = body + b'\n'
        starts = line[:4] == b'-->8'
        if starts:
            rest_ws = And(*[Or(c == 32, c == 9) for c in body[4:]])
            if not rest_ws:
                x.tag('abstain: junk after -->8')
                return
            is_sep.append(True)
        else:
            is_sep.append(False)
        lines.append(line)
    tab = x.choice('tab', [None] + list(range(0, n + 2)))
    out = list(p8.lines_for_tab(iter(lines), tab))
    exp = []
    cur = 0
    for line, sep in zip(lines, is_sep):
        if sep:
            cur += 1
            if tab is None:
                exp.append(line)
        elif tab is None or tab == cur:
            exp.append(line)
    x.out('n', len(out))
    x.check('exactly the lines of the selected tab (all lines and the '
            'separators when no tab is selected)', And(
                len(out) == len(exp),
                *[a == b for a, b in zip(out, exp)]))


def splice(x, p):
    kind = p['kind']
    pos = x.choice('pos', [0, 1, 2])
    final_nl = x.choice('final_nl', [True, False])
    tab = x.choice('tab', [None, 0, 1, 2, 3, 10, 12]) if kind != 'lua' \
        else None
    # (directory and file names may themselves contain ".p8" / ".lua")
    sub = x.choice('sub', ['', 'lib/', 'libs.p8/'])
    base = x.choice('base', ['inc', 'inc.p8', 'old.lua']) if kind == 'lua' \
        else 'inc'
    name = sub + base + ('.lua' if kind == 'lua' else '.p8')
    # a non-include line that merely mentions an include must stay a line
    pre = x.bytes('pre', p.get('npre', 0))
    for k in range(len(pre)):
        x.assume(And(pre[k] != 10, pre[k] != 13))
    blank_pre = And(*[Or(c == 32, c == 9, c == 11, c == 12) for c in pre])
    sel = '' if tab is None else ':%d' % tab
    inc_line = pre + ('#include ' + name + sel + '\n').encode()
    cart = [b'a=1\n', b'b=2\n']
    cart.insert(pos, inc_line)
    second = p.get('second')
    if second:
        # a second include, without a tab selector, later in the cart
        cart.append(('#include ' + second + '\n').encode())
    cartfile = p.get('cart', '/w/r/c.p8')
    cartdir = os.path.dirname(cartfile)
    content = b'x=1\ny=2' + (b'\n' if final_nl else b'')
    opened = []
    missing = p.get('missing', False)

    def isfile(path):
        return not missing

    def fake_open(path, mode='r', *a, **k):
        opened.append(path)
        if path.endswith('.lua'):
            return hx.MemStream(content if kind == 'lua' else b'x=1\ny=2\n')
        if kind == 'p8bare':
            # a cart that ends inside its code, with or without a line end
            return hx.MemStream(P8_TEXT[:P8_TEXT.index(b'__gfx__')] if
                                final_nl else
                                P8_TEXT[:P8_TEXT.index(b'__gfx__') - 1])
        return hx.MemStream(P8_TEXT)
    hx.patch(x, os.path, 'isfile', isfile)
    hx.patch(x, builtins, 'open', fake_open)
    if p.get('symlink'):
        # the cart is reached through a symbolic link: link -> target
        link, target = p['symlink']

        def realpath(path, *a, **k):
            path = os.path.abspath(path)
            if path == link or path.startswith(link + '/'):
                return target + path[len(link):]
            return path
        hx.patch(x, os.path, 'realpath', realpath)
    err = None
    try:
        out = list(p8.process_includes(cart, filename=cartfile))
    except p8.P8IncludeNotFound:
        err = 'notfound'
        out = None
    except Exception as e:
        x.check('include does not raise on an existing target', False,
                info=repr(e))
        return
    if not blank_pre:
        x.tag('not an include line')
        x.check('a line that only mentions #include further on is left '
                'unchanged and nothing is opened',
                And(err is None, len(opened) == 0,
                    out is not None and b''.join(out) == b''.join(cart)))
        return
    if missing:
        x.check('a missing include target fails the load', err == 'notfound')
        return
    x.check('target found', err is None)
    if err is not None:
        return
    x.check('the named file is opened, relative to the cart', And(
        len(opened) >= 1, opened[0] == cartdir + '/' + name))
    if kind == 'lua':
        inc = [b'x=1\n', b'y=2\n']
    else:
        tabs_ = [[b't0=0\n'], [b't1=1\n', b'#include nested.lua\n'], [b't2=3\n']]
        if tab is None:
            inc = [b't0=0\n', b'-->8\n', b't1=1\n', b'#include nested.lua\n', b'-->8\n',
                   b't2=3\n']
        elif tab < 3:
            inc = tabs_[tab]
        else:
            inc = []
    exp = [b'a=1\n', b'b=2\n']
    exp[pos:pos] = inc
    if second:
        if second.endswith('.lua'):
            exp += [b'x=1\n', b'y=2\n']
        else:
            exp += [b't0=0\n', b'-->8\n', b't1=1\n', b'#include nested.lua\n', b'-->8\n',
                    b't2=3\n']
    x.out('out', b''.join(out))
    x.check('include line replaced by the target\'s lines; other lines '
            'unchanged and in place', b''.join(out) == b''.join(exp))


P8_HEAD = b'pico-8 cartridge // http://www.pico-8.com\nversion 8\n__lua__\n'
INC_ALL = [b't0=0\n', b'-->8\n', b't1=1\n', b'#include nested.lua\n',
           b'-->8\n', b't2=3\n']


def load(x, p):
    """The property as the user meets it: P8Formatter.from_file on a cart
    whose code has include lines (indented or not, one or two, next to
    ordinary lines) yields the spliced code; with do_includes=False (how
    included carts are read) the lines stay as they are and nothing is
    opened."""
    kind = p['kind']
    pre = x.bytes('pre', p.get('npre', 0))
    for k in range(len(pre)):
        x.assume(Or(pre[k] == 32, pre[k] == 9))
    pos = x.choice('pos', [0, 1, 2])
    two = x.choice('two', [False, True])
    do_inc = x.choice('do_includes', [True, False])
    name = 'inc.lua' if kind == 'lua' else 'inc.p8'
    sel = x.choice('tab', ['', ':1']) if kind != 'lua' else ''
    inc_line = pre + ('#include ' + name + sel + '\n').encode()
    cart = [b'a=1\n', b'b=2\n']
    cart.insert(pos, inc_line)
    if two:
        cart.append(b'  #include ' + name.encode() + b'\n')
    text = P8_HEAD + b''.join(cart) + b'__gfx__\n'
    opened = []

    def fake_open(path, mode='r', *a, **k):
        opened.append(path)
        if path.endswith('.lua'):
            return hx.MemStream(b'x=1\ny=2\n')
        return hx.MemStream(P8_TEXT)
    hx.patch(x, os.path, 'isfile', lambda path: True)
    hx.patch(x, builtins, 'open', fake_open)
    try:
        g = p8.P8Formatter.from_file(hx.MemStream(text),
                                     filename='/w/r/c.p8',
                                     do_includes=do_inc)
        code = b''.join(g.lua.to_lines())
    except Exception as e:
        if do_inc:
            x.check('a cart with include lines loads', False, info=repr(e))
        else:
            # '#include' is not Lua: a cart read without include processing
            # may be refused by the lexer, it must not open anything
            x.check('nothing opened without include processing',
                    len(opened) == 0)
        return
    if not do_inc:
        x.check('nothing opened without include processing',
                len(opened) == 0)
        return
    if kind == 'lua':
        inc = [b'x=1\n', b'y=2\n']
        inc2 = inc
    else:
        inc = INC_ALL if sel == '' else [b't1=1\n', b'#include nested.lua\n']
        inc2 = INC_ALL
    exp = [b'a=1\n', b'b=2\n']
    exp[pos:pos] = inc
    if two:
        exp += inc2
    x.out('code', code)
    x.check('loaded code = cart code with every include line replaced by '
            'its target', code == b''.join(exp))
    x.check('only the include target is opened', And(
        len(opened) >= 1, *[o == '/w/r/' + name for o in opened]))
    if kind != 'lua':
        return
    # the included file is edited and the cart loaded again in the same
    # process: the new content is spliced

    def fake_open2(path, mode='r', *a, **k):
        return hx.MemStream(b'x=3\n')
    hx.patch(x, builtins, 'open', fake_open2)
    try:
        g2 = p8.P8Formatter.from_file(hx.MemStream(text),
                                      filename='/w/r/c.p8')
        code2 = b''.join(g2.lua.to_lines())
    except Exception as e:
        x.check('a cart with include lines loads a second time', False,
                info=repr(e))
        return
    exp2 = [b'a=1\n', b'b=2\n']
    exp2[pos:pos] = [b'x=3\n']
    if two:
        exp2 += [b'x=3\n']
    x.check('a second load splices the included file as it is now',
            code2 == b''.join(exp2))


Q = {'_budget': 600}
HARNESSES = [
    Harness('tabs', tabs, quick=[dict(Q, n=2, L=5), dict(Q, n=3, L=4)],
            thorough=[dict(Q, n=3, L=5, _budget=2400),
                      dict(Q, n=4, L=4, _budget=2400)]),
    Harness('splice', splice,
            quick=[dict(Q, kind='lua'), dict(Q, kind='p8'),
                   dict(Q, kind='p8bare'),
                   dict(Q, kind='p8', second='inc.p8'),
                   dict(Q, kind='p8', second='other.lua'),
                   dict(Q, kind='lua', cart=os.path.expanduser(
                       '~/.lexaloffle/pico-8/carts/sub/c.p8')),
                   dict(Q, kind='lua', cart='/w/link/c.p8',
                        symlink=('/w/link', '/w/r')),
                   dict(Q, kind='p8', cart='/w/link/sub/c.p8',
                        symlink=('/w/link', '/w/r')),
                   dict(Q, kind='lua', npre=1), dict(Q, kind='lua', npre=2),
                   dict(Q, kind='lua', missing=True),
                   dict(Q, kind='lua', missing=True, npre=1)]),
    Harness('load', load,
            quick=[dict(Q, kind='lua', npre=0), dict(Q, kind='lua', npre=2),
                   dict(Q, kind='p8', npre=1)]),
]
