"""picotool AST -> the skeleton format of ref/luaparse.py (so that the two can
be compared with ==).  Token leaves are identified by their index in the
token list."""
from pico8.lua import parser, lexer


class Skel:
    def __init__(self, toks):
        self.toks = toks
        self.ids = dict((id(t), i) for i, t in enumerate(toks))

    def ix(self, tok):
        i = getattr(tok, 'index', None)
        if i is not None and not isinstance(tok, lexer.Token):
            return i
        return self.ids[id(tok)]

    def name(self, node):
        return node.__class__.__name__

    # --- statements --------------------------------------------------------
    def chunk(self, node):
        out = ['chunk']
        for s in node.stats:
            out.append(self.stat(s))
        return out

    def stat(self, s):
        n = self.name(s)
        if n == 'StatAssignment':
            return ['assign', [self.chain(v) for v in s.varlist.vars],
                    self.ix(s.assignop), self.explist(s.explist)]
        if n == 'StatFunctionCall':
            fc = s.functioncall
            if getattr(fc.args, 'short_print', False):
                # ? explist
                if self.name(fc.exp_prefix) != 'VarName':
                    raise ValueError('short print without a name')
                return ['print', self.ix(fc.exp_prefix.name),
                        self.explist(fc.args.explist)]
            return ['call', self.chain(s.functioncall)]
        if n == 'StatDo':
            return ['do', self.chunk(s.block)]
        if n == 'StatWhile':
            return ['while', self.exp(s.exp), self.chunk(s.block)]
        if n == 'StatRepeat':
            return ['repeat', self.chunk(s.block), self.exp(s.exp)]
        if n == 'StatIf':
            if getattr(s, 'short_if', False):
                cond, body = s.exp_block_pairs[0]
                els = None
                if len(s.exp_block_pairs) > 1:
                    els = self.chunk(s.exp_block_pairs[1][1])
                # the parser unwraps the parenthesised condition
                return ['shortif',
                        ['exp', ['chain', ['paren', self.exp(cond)]]],
                        self.chunk(body), els]
            out = ['if']
            for cond, block in s.exp_block_pairs:
                if cond is None:
                    out.append(['else', self.chunk(block)])
                else:
                    out.append([self.exp(cond), self.chunk(block)])
            return out
        if n == 'StatForStep':
            return ['fornum', self.ix(s.name), self.exp(s.exp_init),
                    self.exp(s.exp_end),
                    None if s.exp_step is None else self.exp(s.exp_step),
                    self.chunk(s.block)]
        if n == 'StatForIn':
            return ['forin', [self.ix(t) for t in s.namelist.names],
                    self.explist(s.explist), self.chunk(s.block)]
        if n == 'StatFunction':
            fn = s.funcname
            return ['function', [self.ix(t) for t in fn.namepath],
                    None if fn.methodname is None else self.ix(fn.methodname),
                    self.body(s.funcbody)]
        if n == 'StatLocalFunction':
            return ['localfunction', self.ix(s.funcname),
                    self.body(s.funcbody)]
        if n == 'StatLocalAssignment':
            return ['local', [self.ix(t) for t in s.namelist.names],
                    None if s.explist is None else self.explist(s.explist)]
        if n == 'StatGoto':
            # the node keeps only the label text; locate the name token
            return ['goto', self.goto_index(s)]
        if n == 'StatLabel':
            return ['label', self.first_sig(s)]
        if n == 'StatBreak':
            return ['break']
        if n == 'StatReturn':
            return ['return', None if s.explist is None
                    else self.explist(s.explist)]
        raise ValueError('unknown statement node ' + n)

    def first_sig(self, node):
        for k in range(node.start_pos, node.end_pos):
            t = self.toks[k]
            if not (isinstance(t, lexer.TokSpace) or
                    isinstance(t, lexer.TokNewline) or
                    isinstance(t, lexer.TokComment)):
                return k
        return None

    def goto_index(self, node):
        # goto Name: the name is the last token of the statement
        return node.end_pos - 1

    def body(self, b):
        params = []
        if b.parlist is not None:
            params = [self.ix(t) for t in b.parlist.names]
        return ['body', params, b.dots is not None, self.chunk(b.block)]

    # --- expressions -------------------------------------------------------------
    def explist(self, el):
        return [self.exp(e) for e in el.exps]

    def exp(self, e):
        items = ['exp']
        self.flat(e, items)
        return items

    def flat(self, e, items):
        n = self.name(e)
        if n == 'ExpBinOp':
            self.flat(e.exp1, items)
            items.append(['op', self.ix(e.binop)])
            self.flat(e.exp2, items)
        elif n == 'ExpUnOp':
            items.append(['un', self.ix(e.unop)])
            self.flat(e.exp, items)
        elif n == 'VarargDots':
            items.append(['dots', e.end_pos - 1])
        elif n == 'ExpValue':
            items.append(self.operand(e))
        else:
            # a bare prefix expression in expression position
            items.append(self.chain(e))

    def operand(self, e):
        v = e.value
        if v is None:
            return ['nil', e.end_pos - 1]
        if v is False:
            return ['false', e.end_pos - 1]
        if v is True:
            return ['true', e.end_pos - 1]
        vn = self.name(v)
        if isinstance(v, parser.Node):
            if vn == 'Function':
                return ['function', self.body(v.funcbody)]
            if vn == 'TableConstructor':
                return self.table(v)
            if vn in ('ExpBinOp', 'ExpUnOp', 'ExpValue', 'VarargDots'):
                # the value of an ExpValue is an expression: it was written
                # in parentheses
                return ['chain', ['paren', self.exp(v)]]
            return self.chain(v)
        # a token: number or string (names arrive as VarName nodes)
        if isinstance(v, lexer.TokNumber):
            return ['number', self.ix(v)]
        if isinstance(v, lexer.TokString):
            return ['string', self.ix(v)]
        return ['name-token', self.ix(v)]

    def table(self, t):
        out = ['table']
        for f in t.fields:
            fn = self.name(f)
            if fn == 'FieldExpKey':
                out.append(['fkey', self.exp(f.key_exp), self.exp(f.exp)])
            elif fn == 'FieldNamedKey':
                out.append(['fnamed', self.ix(f.key_name), self.exp(f.exp)])
            else:
                out.append(['fexp', self.exp(f.exp)])
        return out

    def args(self, a):
        if a is None:
            return ['args', None]
        if isinstance(a, parser.Node):
            an = self.name(a)
            if an == 'FunctionArgs':
                return ['args', None if a.explist is None
                        else self.explist(a.explist)]
            if an == 'TableConstructor':
                return self.table(a)
        return ['string', self.ix(a)]

    def chain(self, node):
        """Var*/FunctionCall* nests -> ['chain', head, suffix...]"""
        suffixes = []
        cur = node
        while True:
            n = self.name(cur)
            if n == 'VarName':
                head = ['name', self.ix(cur.name)]
                break
            if n == 'VarIndex':
                suffixes.append(['index', self.exp(cur.exp_index)])
                cur = cur.exp_prefix
            elif n == 'VarAttribute':
                suffixes.append(['attr', self.ix(cur.attr_name)])
                cur = cur.exp_prefix
            elif n == 'FunctionCall':
                suffixes.append(['call', self.args(cur.args)])
                cur = cur.exp_prefix
            elif n == 'FunctionCallMethod':
                suffixes.append(['method', self.ix(cur.methodname),
                                 self.args(cur.args)])
                cur = cur.exp_prefix
            else:
                # an expression in prefix position: it was parenthesised
                head = ['paren', self.exp(cur)]
                break
        return ['chain', head] + list(reversed(suffixes))
