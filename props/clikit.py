"""Command-line level harness support: runs `tool.main(argv)` (the real
argparse wiring and the real cart readers / writers) over an in-memory file
system.  Stubbed environment: builtins.open, os.path.exists / isfile,
os.getenv, os.remove / unlink / rename / replace, tempfile.TemporaryFile,
util.write / util.error (captured)."""
import builtins
import os
import tempfile

from symx import hx
from pico8 import util




def _real_open(name, mode='rb', *a, **kw):
    # (not builtins.open: in symbolic runs calls of that function object are
    # routed to the in-memory file system, which is where this is called from)
    return os.fdopen(os.open(name, os.O_RDONLY), mode if 'b' in mode else 'r')


_PKG_DIR = os.path.join(os.environ.get('SYMX_REPO', '/repo'), 'pico8')


class MemFS:
    def __init__(self, x, files=None):
        self.files = dict(files or {})     # name -> bytes
        self.initial = dict(self.files)
        self.opened_for_write = []
        self.opened_for_read = []
        self.messages = []
        self.errors = []
        fs = self

        class Dest(hx.MemStream):
            def __init__(self, name):
                hx.MemStream.__init__(self)
                self.name = name
                fs.opened_for_write.append(name)
                fs.files[name] = b''        # 'wb+' truncates

            def write(self, b):
                r = hx.MemStream.write(self, b)
                fs.files[self.name] = self.getvalue()
                return r

        def fake_open(name, mode='r', *a, **kw):
            if 'w' in mode or '+' in mode or 'a' in mode:
                return Dest(name)
            if name not in fs.files:
                if str(name).startswith(_PKG_DIR):
                    # resources bundled with picotool (the blank label)
                    return _real_open(name, mode, *a, **kw)
                raise FileNotFoundError(name)
            fs.opened_for_read.append(name)
            return hx.MemStream(fs.files[name])

        hx.patch(x, builtins, 'open', fake_open)
        hx.patch(x, os.path, 'exists', lambda n: n in fs.files)
        hx.patch(x, os.path, 'isfile', lambda n: n in fs.files)
        self.env = {}
        hx.patch(x, os, 'getenv',
                 lambda k, default=None: fs.env.get(k, default))
        self.removed = []

        def fake_remove(name, *a, **kw):
            if name not in fs.files:
                raise FileNotFoundError(name)
            fs.removed.append(name)
            del fs.files[name]

        def fake_rename(src, dst, *a, **kw):
            if src not in fs.files:
                raise FileNotFoundError(src)
            fs.removed.append(src)
            fs.opened_for_write.append(dst)
            fs.files[dst] = fs.files.pop(src)
        def fake_copy(src, dst, *a, **kw):
            if src not in fs.files:
                raise FileNotFoundError(src)
            fs.opened_for_read.append(src)
            fs.opened_for_write.append(dst)
            fs.files[dst] = fs.files[src]
            return dst
        import shutil
        for fn_ in ('copyfile', 'copy', 'copy2'):
            hx.patch(x, shutil, fn_, fake_copy)
        hx.patch(x, shutil, 'move', fake_rename)
        hx.patch(x, os, 'remove', fake_remove)
        hx.patch(x, os, 'unlink', fake_remove)
        hx.patch(x, os, 'rename', fake_rename)
        hx.patch(x, os, 'replace', fake_rename)
        hx.patch(x, tempfile, 'TemporaryFile',
                 lambda **kw: hx.MemStream())
        hx.patch(x, util, 'write', lambda msg: fs.messages.append(msg))
        hx.patch(x, util, 'error', lambda msg: fs.errors.append(msg))
        hx.patch(x, util, 'debug', lambda msg: None)


def changed(fs):
    """Names whose final state differs from the initial one (created,
    removed or different bytes) - what a user would see after the command;
    temporary files that are gone again do not count."""
    out = []
    for n in sorted(set(fs.files) | set(fs.initial)):
        a, b = fs.initial.get(n), fs.files.get(n)
        if a is None or b is None or bytes(a) != bytes(b):
            out.append(n)
    return out


def only_changed(fs, name):
    """After a successful command: `name` exists and no other file was
    created, removed or modified."""
    return name in fs.files and all(n == name for n in changed(fs))


def p8_text(code, version=8, extra=b''):
    return (b'pico-8 cartridge // http://www.pico-8.com\nversion ' +
            str(version).encode() + b'\n__lua__\n' + code + extra)


def run_main(argv):
    """(return code, exception) of tool.main(argv); argparse errors
    (SystemExit) are reported as a return code."""
    from pico8 import tool
    try:
        return tool.main(argv), None
    except SystemExit as e:
        return ('exit', e.code), None
    except Exception as e:
        return None, e


def lua_of(p8_bytes):
    """Code section of a .p8 file text (bytes up to the next section)."""
    data = bytes(p8_bytes)
    i = data.index(b'__lua__\n') + len(b'__lua__\n')
    out = []
    for line in data[i:].splitlines(True):
        if line.startswith(b'__') and line.rstrip().endswith(b'__'):
            break
        out.append(line)
    return b''.join(out)
