"""Shared harness code for C09/C10: the whitespace-rewriting kernel
LuaFormatterWriter._get_code_for_spaces on symbolic trivia runs."""
from symx import hx
from symx.hx import And, Or, Not, Ite
from pico8.lua import lua, lexer

WS = (32, 9, 10, 13)


def is_ws(c):
    return Or(c == 32, c == 9, c == 10, c == 13)


def nonws(data):
    """Bytes of data that are not white space (forks on symbolic bytes)."""
    out = []
    for c in data:
        if not is_ws(c):
            out.append(c)
    return out


def make_run(x, shape, tag='r'):
    """Tokens of a trivia run.  shape: list of kinds among
    'sp' (1-2 symbolic blanks), 'nl' (LF), 'crlf', 'c--' / 'c//' (line
    comment with 2 symbolic bytes), 'blk' (block comment --[[b]])."""
    toks = []
    for i, k in enumerate(shape):
        if k == 'sp':
            n = x.choice('%s%d.n' % (tag, i), [1, 2])
            s = x.bytes('%s%d' % (tag, i), n)
            for j in range(n):
                x.assume(Or(s[j] == 32, s[j] == 9))
            toks.append(lexer.TokSpace(s))
        elif k == 'nl':
            toks.append(lexer.TokNewline(b'\n'))
        elif k == 'crlf':
            toks.append(lexer.TokNewline(b'\r\n'))
        elif k == 'cr':
            toks.append(lexer.TokNewline(b'\r'))
        elif k in ('c--', 'c//'):
            s = x.bytes('%s%d' % (tag, i), 2)
            for j in range(2):
                x.assume(And(s[j] != 10, s[j] != 13))
            if k == 'c--':
                # not a block-comment opener
                x.assume(Not(And(s[0] == 91, s[1] == 91)))
            toks.append(lexer.TokComment(k[1:].encode() + s))
        elif k == 'blk':
            s = x.bytes('%s%d' % (tag, i), 1)
            x.assume(s[0] != 93)
            toks.append(lexer.TokComment(b'--[[' + s + b']]'))
        else:
            raise ValueError(k)
    return toks


def lexer_shapes(n, at_eof):
    """All kind sequences of length n the lexer can produce for a trivia
    run: a line comment is followed by a line end (or the end of input),
    blanks are maximal (no two adjacent 'sp')."""
    kinds = ['sp', 'nl', 'crlf', 'cr', 'c--', 'c//', 'blk']
    out = []

    def rec(prefix):
        if len(prefix) == n:
            if prefix and prefix[-1] in ('c--', 'c//') and not at_eof:
                return
            out.append(list(prefix))
            return
        for k in kinds:
            if prefix:
                last = prefix[-1]
                if last == 'sp' and k == 'sp':
                    continue
                if last == 'cr' and k == 'nl':
                    continue        # that would have been one CRLF token
                if last in ('c--', 'c//') and k not in ('nl', 'crlf', 'cr'):
                    continue
            rec(prefix + [k])
    rec([])
    return out


def run_kernel(run, at_start, at_eof, indent, width):
    toks = []
    if not at_start:
        toks.append(lexer.TokName(b'a'))
    start = len(toks)
    toks.extend(run)
    if not at_eof:
        toks.append(lexer.TokName(b'b'))
    w = lua.LuaFormatterWriter(tokens=toks, root=None,
                               args={'indentwidth': width})
    w._pos = start
    w._indent = indent
    out = w._get_code_for_spaces(None)
    return out, w._pos - start


def comments_of(run):
    out = []
    for t in run:
        if isinstance(t, lexer.TokComment):
            out.append(t._data)
    return out


def has_newline(run):
    for t in run:
        if isinstance(t, lexer.TokNewline):
            return True
    return False
