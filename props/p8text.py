"""A .p8 file text as PICO-8 writes it (trailing default rows of a section
omitted), built with the reference row encoders of ref/p8format.py."""
from ref import p8format as F

REGION = {'gfx': (8192, 64, 0), 'label': (8192, 64, 0), 'gff': (256, 128, 0),
          'map': (4096, 128, 0), 'sfx': (4352, 68, None),
          'music': (256, 4, None)}
ORDER = ('gfx', 'label', 'gff', 'map', 'sfx', 'music')
MUSIC_DEFAULT = [0x41, 0x42, 0x43, 0x44]


def row_memory(sec, r):
    size, rb, _ = REGION[sec]
    mem = [(17 * r + 3 * c + len(sec)) % 128 for c in range(rb)]
    if sec == 'music':
        mem[3] &= 0x7f          # the .p8 music row has no place for bit 7
    return mem


def trimmed_text(counts, code=b'x=1\n'):
    """counts: {section: number of rows present, or None for no section}.
    Returns (file bytes, {section: [row memory, ...]})."""
    text = [b'pico-8 cartridge // http://www.pico-8.com\n', b'version 33\n',
            b'__lua__\n', code]
    row_mem = {}
    for sec in ORDER:
        k = counts.get(sec)
        if k is None:
            continue
        text.append(b'__' + sec.encode() + b'__\n')
        mems = []
        for r in range(k):
            mem = row_memory(sec, r)
            mems.append(mem)
            if sec in ('gfx', 'label'):
                text.append(bytes(F.gfx_row(mem)))
            elif sec in ('gff', 'map'):
                text.append(bytes(F.hex_row(mem)))
            elif sec == 'sfx':
                text.append(bytes(F.sfx_row(mem)))
            else:
                text.append(bytes(F.music_row(mem)))
        row_mem[sec] = mems
    return b''.join(text), row_mem
