"""Symbolic tokens for the parser / writer harnesses: a token whose *kind* is
a symbolic index into a fixed alphabet of (token class, spelling) pairs.
In native mode the same alphabet yields real lexer tokens."""
from symx import hx, rt
from symx.hx import And, Or, Not
from pico8.lua import lexer

KEYWORDS = ['and', 'break', 'do', 'else', 'elseif', 'end', 'false', 'for',
            'function', 'goto', 'if', 'in', 'local', 'nil', 'not', 'or',
            'repeat', 'return', 'then', 'true', 'until', 'while']
SYMBOLS = ['+=', '-=', '*=', '/=', '%=', '..=', '==', '~=', '!=', '<=', '>=',
           '&', '|', '^^', '~', '<<>', '>>>', '>><', '<<', '>>', '\\', '+',
           '-', '*', '/', '%', '^', '#', '@', '$', '<', '>', '=', '(', ')',
           '{', '}', '[', ']', ';', ':', ',', '...', '..', '.']


def make_alphabet(names=('x', 'y'), trivia=True):
    a = []
    for n in names:
        a.append(('name', lexer.TokName, n.encode()))
    a.append(('name?', lexer.TokName, b'?'))
    a.append(('number', lexer.TokNumber, b'1'))
    a.append(('string', lexer.TokString, b's'))
    a.append(('label', lexer.TokLabel, b'::l::'))
    for k in KEYWORDS:
        a.append(('kw:' + k, lexer.TokKeyword, k.encode()))
    for s in SYMBOLS:
        a.append(('sym:' + s, lexer.TokSymbol, s.encode()))
    if trivia:
        a.append(('space', lexer.TokSpace, b' '))
        a.append(('newline', lexer.TokNewline, b'\n'))
        a.append(('comment', lexer.TokComment, b'--c'))
        # the other two line ends the lexer produces: same kind for the
        # grammar, different token data
        a.append(('newline', lexer.TokNewline, b'\r\n'))
        a.append(('newline', lexer.TokNewline, b'\r'))
    return a


def real_token(entry):
    name, cls, data = entry
    return cls(data, 0, 0)


def kind_name(tok):
    """Reference kind name of a real lexer token."""
    if isinstance(tok, lexer.TokName):
        return 'name?' if tok._data == b'?' else 'name'
    if isinstance(tok, lexer.TokNumber):
        return 'number'
    if isinstance(tok, lexer.TokString):
        return 'string'
    if isinstance(tok, lexer.TokLabel):
        return 'label'
    if isinstance(tok, lexer.TokKeyword):
        return 'kw:' + tok._data.decode('latin-1').lower()
    if isinstance(tok, lexer.TokSymbol):
        return 'sym:' + tok._data.decode('latin-1')
    if isinstance(tok, lexer.TokSpace):
        return 'space'
    if isinstance(tok, lexer.TokNewline):
        return 'newline'
    if isinstance(tok, lexer.TokComment):
        return 'comment'
    raise ValueError(tok)


class View:
    """Reference-parser view of a real token."""

    def __init__(self, tok, index):
        self.tok = tok
        self.index = index
        self.kind = kind_name(tok)

    def is_(self, kinds):
        return self.kind in kinds


class SymTok:
    """Token with symbolic kind.  Duck-types lexer.Token for the parser and
    the writers."""

    def __init__(self, kind, index, alpha):
        self.kind = kind            # SInt / int index into alpha
        self.index = index
        self.alpha = alpha
        self._lineno = 0
        self._charno = 0

    def _where(self, pred):
        return Or(*[self.kind == i for i, e in enumerate(self.alpha)
                    if pred(e)])

    def is_(self, kinds):
        return self._where(lambda e: e[0] in kinds)

    def _symx_isinstance_(self, cls):
        if cls is SymTok or (isinstance(cls, tuple) and SymTok in cls):
            return True
        return self._where(lambda e: issubclass(e[1], cls))

    def matches(self, other):
        if isinstance(other, type):
            return self._symx_isinstance_(other)
        return self == other

    def __eq__(self, other):
        if isinstance(other, SymTok):
            return self.kind == other.kind
        if isinstance(other, lexer.Token):
            ocls = type(other)
            od = other._data
            if ocls is lexer.TokKeyword:
                od = od.lower()
            return self._where(lambda e: e[1] is ocls and e[2] == od)
        return False

    def __ne__(self, other):
        return Not(self.__eq__(other))

    def __hash__(self):
        return id(self)

    @property
    def _data(self):
        return rt.choose(self.kind, list(range(len(self.alpha))),
                         [e[2] for e in self.alpha])

    @property
    def code(self):
        return rt.choose(self.kind, list(range(len(self.alpha))),
                         [real_token(e).code for e in self.alpha])

    @property
    def value(self):
        return self._data

    def __repr__(self):
        return '<SymTok %d>' % self.index


def tokens(x, k, alpha, prefix='t'):
    """k tokens of symbolic kind (symbolic mode) / real tokens (native)."""
    out = []
    for i in range(k):
        kind = x.int('%s%d' % (prefix, i), 0, len(alpha) - 1)
        if x.symbolic:
            out.append(SymTok(kind, i, alpha))
        else:
            out.append(real_token(alpha[kind]))
    return out


def views(toks):
    out = []
    for i, t in enumerate(toks):
        if isinstance(t, SymTok):
            t.index = i
            out.append(t)
        else:
            out.append(View(t, i))
    return out
