"""Plain reference models of the documented accessor semantics (C17).

Written from the docstrings of pico8/gfx, map, gff, sfx, music and the
PICO-8 memory layout; deliberately structured differently from the
implementation (coordinate-first, no byte read-modify-write)."""
from symx.hx import And, Or, Not, Ite

TRANSPARENT = 16


# --- sprite sheet: 128x128 pixels, 64 bytes per row, low nibble = left ----

def px_get(mem, px, py):
    b = mem[py * 64 + px // 2]
    return Ite(px % 2 == 0, b & 15, (b >> 4) & 15)


def sprite_expected(mem, idn, tw, th):
    """Rows of pixels for get_sprite(id, tw, th): off-sheet tiles are 0."""
    x0 = (idn % 16) * 8
    y0 = (idn // 16) * 8
    rows = []
    for r in range(th * 8):
        row = []
        for c in range(tw * 8):
            # whole tiles are in or out; decide on the tile, not the pixel
            tcol = idn % 16 + c // 8
            trow = idn // 16 + r // 8
            inside = And(tcol <= 15, trow <= 15)
            if inside is False:
                row.append(0)
            elif inside is True:
                row.append(px_get(mem, x0 + c, y0 + r))
            else:
                # clamp the address so the model itself never leaves memory
                sx = Ite(inside, x0 + c, 0)
                sy = Ite(inside, y0 + r, 0)
                row.append(Ite(inside, px_get(mem, sx, sy), 0))
        rows.append(row)
    return rows


def set_sprite_expected_byte(old, a, idn, sprite, xoff, yoff):
    """Byte at address a of the sheet after set_sprite."""
    fx = (idn % 16) * 8 + xoff
    fy = (idn // 16) * 8 + yoff
    ay = a // 64
    ax = (a % 64) * 2
    lo = old[a] & 15
    hi = (old[a] >> 4) & 15
    for y, row in enumerate(sprite):
        for x, val in enumerate(row):
            drawn = And(val != TRANSPARENT, fx + x < 128, fy + y < 128,
                        fy + y == ay)
            lo = Ite(And(drawn, fx + x == ax), val, lo)
            hi = Ite(And(drawn, fx + x == ax + 1), val, hi)
    return lo | (hi << 4)


# --- map: 128x64 cells, rows 32..63 in the lower half of sprite memory ------

def cell_get(mapmem, gfxmem, cx, cy):
    upper = cy <= 31
    iu = Ite(upper, cy * 128 + cx, 0)
    il = Ite(upper, 0, 4096 + (cy - 32) * 128 + cx)
    return Ite(upper, mapmem[iu], gfxmem[il])


def rect_tiles_expected(mapmem, gfxmem, cx, cy, w, h):
    rows = []
    for r in range(h):
        row = []
        for c in range(w):
            inside = And(cx + c <= 127, cy + r <= 63)
            sx = Ite(inside, cx + c, 0)
            sy = Ite(inside, cy + r, 0)
            row.append(Ite(inside, cell_get(mapmem, gfxmem, sx, sy), 0))
        rows.append(row)
    return rows


def set_rect_expected(oldmap, oldgfx, which, a, rect, cx, cy):
    """Byte at address a of region `which` ('map'|'gfx') after
    set_rect_tiles(rect, cx, cy)."""
    v = oldmap[a] if which == 'map' else oldgfx[a]
    for r, row in enumerate(rect):
        for c, val in enumerate(row):
            X = cx + c
            Y = cy + r
            inb = And(X <= 127, Y <= 63)
            if which == 'map':
                hit = And(inb, Y <= 31, Y * 128 + X == a)
            else:
                hit = And(inb, Y >= 32, 4096 + (Y - 32) * 128 + X == a)
            v = Ite(hit, val, v)
    return v


# --- sfx --------------------------------------------------------------------

def note_fields(lsb, msb):
    w = lsb | (msb << 8)
    pitch = w & 63
    wave = ((w >> 6) & 7) | (((w >> 15) & 1) << 3)
    vol = (w >> 9) & 7
    eff = (w >> 12) & 7
    return pitch, wave, vol, eff


def note_word(pitch, wave, vol, eff):
    w = pitch | ((wave & 7) << 6) | (vol << 9) | (eff << 12) | \
        (((wave >> 3) & 1) << 15)
    return w & 255, (w >> 8) & 255
