"""Side lemma used by the engine's model of `int(a / b)` (SRatio.floor_int):
for integers 0 <= a < 2**31 and the divisor picotool actually uses
(len(MinifyNameFactory.NAME_CHARS), read from the repository at run time),
IEEE-754 double division followed by truncation equals integer floor
division.  (Measured: z3 43 s, cvc5 24 s; a symbolic divisor 1..63 did not
finish in 300 s, so the divisor is the concrete one.)
Decided by z3 over floating-point / bit-vector terms (QF_BVFP): unsat of the
negation = holds for all 2**31 values.   python -m ref.fplemma"""
import sys
import time
import z3


def main():
    t0 = time.time()
    import os
    sys.path.insert(0, os.environ.get('SYMX_REPO', '/repo'))
    from pico8.lua import lua
    div = len(lua.MinifyNameFactory.NAME_CHARS)
    a = z3.BitVec('a', 32)
    b = z3.BitVecVal(div, 32)
    F = z3.Float64()
    rne, rtz = z3.RNE(), z3.RTZ()
    fa = z3.fpSignedToFP(rne, a, F)
    fb = z3.fpSignedToFP(rne, b, F)
    q = z3.fpDiv(rne, fa, fb)
    trunc = z3.fpToSBV(rtz, q, z3.BitVecSort(32))
    s = z3.Solver()
    s.set('timeout', 300000)
    s.add(a >= 0)
    s.add(trunc != z3.UDiv(a, b))
    r = s.check()
    dt = time.time() - t0
    print('ref.fplemma: int(a/%d) == a//%d for 0<=a<2^31: %s (%.1fs)'
          % (div, div, 'holds (unsat)' if r == z3.unsat else str(r), dt))
    if r == z3.sat:
        print(s.model())
    return 0 if r == z3.unsat else 1


if __name__ == '__main__':
    sys.exit(main())
