"""Reference one-step lexer for the PICO-8 Lua dialect the properties name.

Written from the Lua 5.2 reference manual (3.1 Lexical Conventions) and the
PICO-8 manual's list of syntax extensions; hand-coded scanner in the style of
llex.c, deliberately *not* table/regex driven.

step(mode, buf, fresh) looks at the bytes of `buf` (the rest of the current
chunk) and returns a tuple
    (verdict, kind, length, value, mode')
verdict: 'tok'     one token (or, for openers, the opener) of `length` bytes
         'more'    the construct continues past the end of buf (multi-line
                   tokens only); everything was consumed
         'reject'  no token of the dialect starts here
         'abstain' Lua 5.2 and PICO-8 may differ / the documentation does not
                   settle it: no claim
kind:  space newline comment number label keyword symbol name string
       open-quote open-long open-comment
value: decoded bytes (list of ints) for string tokens, else None
"""
from symx.hx import And, Or, Not, Ite

KEYWORDS = [b'and', b'break', b'do', b'else', b'elseif', b'end', b'false',
            b'for', b'function', b'goto', b'if', b'in', b'local', b'nil',
            b'not', b'or', b'repeat', b'return', b'then', b'true', b'until',
            b'while']

# PICO-8 dialect symbols as named by the property (longest match among them)
SYMBOLS = [b'...', b'..=', b'<<>', b'>>>', b'>><',
           b'+=', b'-=', b'*=', b'/=', b'%=', b'==', b'~=', b'!=', b'<=',
           b'>=', b'^^', b'<<', b'>>', b'..',
           b'&', b'|', b'~', b'\\', b'+', b'-', b'*', b'/', b'%', b'^',
           b'#', b'@', b'$', b'<', b'>', b'=', b'(', b')', b'{', b'}', b'[',
           b']', b';', b':', b',', b'.']

SIMPLE_ESCAPES = {ord('a'): 7, ord('b'): 8, ord('f'): 12, ord('n'): 10,
                  ord('r'): 13, ord('t'): 9, ord('v'): 11, 92: 92, 34: 34,
                  39: 39, 10: 10,
                  # P8SCII control-code escapes of PICO-8
                  ord('*'): 1, ord('#'): 2, ord('-'): 3, ord('|'): 4,
                  ord('+'): 5, ord('^'): 6}


def is_digit(c):
    return And(c >= 48, c <= 57)


def is_hexdigit(c):
    return Or(And(c >= 48, c <= 57), And(c >= 97, c <= 102),
              And(c >= 65, c <= 70))


def is_bindigit(c):
    return Or(c == 48, c == 49)


def is_name_start(c):
    return Or(And(c >= 97, c <= 122), And(c >= 65, c <= 90), c == 95,
              c >= 128)


def is_name_char(c):
    return Or(is_name_start(c), is_digit(c))


def hexval(c):
    return Ite(c <= 57, c - 48, Ite(c >= 97, c - 87, c - 55))


def at(buf, i, n):
    """buf[i] or -1 past the end."""
    if i < n:
        return buf[i]
    return -1


def startswith(buf, n, i, lit):
    if i + len(lit) > n:
        return False
    for k in range(len(lit)):
        if buf[i + k] != lit[k]:
            return False
    return True


ABSTAIN = ('abstain', None, 0, None, None)
REJECT = ('reject', None, 0, None, None)


def step(mode, buf, fresh=True):
    n = len(buf)
    if mode[0] == 'normal':
        return step_normal(buf, n)
    if mode[0] == 'string':
        return step_string(buf, n, mode[1])
    if mode[0] == 'comment':
        return step_block_comment(buf, n)
    if mode[0] == 'long':
        return step_long_string(buf, n, mode[1], fresh)
    raise ValueError(mode)


def step_normal(buf, n):
    if n == 0:
        return REJECT
    c = buf[0]
    # --- white space ----------------------------------------------------
    if Or(c == 32, c == 9):
        i = 1
        while i < n and Or(buf[i] == 32, buf[i] == 9):
            i += 1
        return ('tok', 'space', i, None, ('normal',))
    if c == 10:
        return ('tok', 'newline', 1, None, ('normal',))
    if c == 13:
        if n > 1 and buf[1] == 10:
            return ('tok', 'newline', 2, None, ('normal',))
        return ('tok', 'newline', 1, None, ('normal',))
    # --- comments -----------------------------------------------------------
    if c == 45 and n > 1 and buf[1] == 45:
        if n > 2 and buf[2] == 91:
            # --[  : long comment iff a long bracket opens here
            if n > 3 and buf[3] == 91:
                return ('tok', 'open-comment', 4, None, ('comment',))
            if n > 3 and buf[3] == 61:
                return ABSTAIN      # --[=*[ : Lua long comment, PICO-8 unclear
            if n == 3:
                return ABSTAIN      # chunk ends inside a possible opener
        return line_comment(buf, n)
    if c == 47 and n > 1 and buf[1] == 47:
        return line_comment(buf, n)
    # --- long strings ----------------------------------------------------------
    if c == 91:
        i = 1
        while i < n and buf[i] == 61:
            i += 1
        if i < n and buf[i] == 91:
            return ('tok', 'open-long', i + 1, None, ('long', i - 1))
        if i > 1:
            return ABSTAIN if i == n else REJECT_OR_SYMBOL(buf, n)
        if i == n and n == 1:
            pass                    # a lone '[' at the end of the chunk
        return ('tok', 'symbol', 1, None, ('normal',))
    # --- quoted strings -----------------------------------------------------------
    if Or(c == 34, c == 39):
        q = 34
        if c == 39:
            q = 39
        return ('tok', 'open-quote', 1, None, ('string', q))
    # --- numbers ---------------------------------------------------------------------
    if is_digit(c):
        return number(buf, n)
    if c == 46 and n > 1 and is_digit(buf[1]):
        return number(buf, n)
    # --- labels  ::name:: ----------------------------------------------------------------
    if c == 58 and n > 1 and buf[1] == 58:
        if n > 2 and is_name_start(buf[2]):
            i = 3
            while i < n and is_name_char(buf[i]):
                i += 1
            if i + 1 < n and buf[i] == 58 and buf[i + 1] == 58:
                return ('tok', 'label', i + 2, None, ('normal',))
        return ABSTAIN              # '::' with spaces / at chunk end
    # --- names and keywords ------------------------------------------------------------------
    if is_name_start(c):
        i = 1
        while i < n and is_name_char(buf[i]):
            i += 1
        for kw in KEYWORDS:
            if len(kw) == i and startswith(buf, n, 0, kw):
                return ('tok', 'keyword', i, None, ('normal',))
        return ('tok', 'name', i, None, ('normal',))
    if c == 63:
        return ('tok', 'name', 1, None, ('normal',))      # '?' print shorthand
    # --- symbols: longest match ---------------------------------------------------------------------
    for sym in SYMBOLS:
        if startswith(buf, n, 0, sym):
            return ('tok', 'symbol', len(sym), None, ('normal',))
    if c < 32:
        return ABSTAIN              # other control characters outside strings
    if c == 127:
        return ABSTAIN
    return REJECT


def REJECT_OR_SYMBOL(buf, n):
    # '[=' not followed by '[': the '[' is a symbol on its own
    return ('tok', 'symbol', 1, None, ('normal',))


def line_comment(buf, n):
    i = 2
    while i < n and Not(Or(buf[i] == 10, buf[i] == 13)):
        i += 1
    return ('tok', 'comment', i, None, ('normal',))


def number(buf, n):
    c = buf[0]
    i = 0
    if c == 48 and n > 1 and Or(buf[1] == 120, buf[1] == 88):
        i, ok = digits_frac(buf, n, 2, is_hexdigit)
        if not ok:
            return ABSTAIN
        if i < n and Or(buf[i] == 112, buf[i] == 80):
            return ABSTAIN          # hex float binary exponent
    elif c == 48 and n > 1 and Or(buf[1] == 98, buf[1] == 66):
        i, ok = digits_frac(buf, n, 2, is_bindigit)
        if not ok:
            return ABSTAIN
    else:
        i = 0
        while i < n and is_digit(buf[i]):
            i += 1
        if i < n and buf[i] == 46:
            if i + 1 < n and buf[i + 1] == 46:
                return ABSTAIN      # '1..': concat or malformed number
            i += 1
            while i < n and is_digit(buf[i]):
                i += 1
        if i < n and Or(buf[i] == 101, buf[i] == 69):
            j = i + 1
            if j < n and buf[j] == 43:
                return ABSTAIN      # explicit '+' exponent sign
            if j < n and buf[j] == 45:
                j += 1
            if j < n and is_digit(buf[j]):
                while j < n and is_digit(buf[j]):
                    j += 1
                i = j
            else:
                return ABSTAIN      # 'e' without digits: malformed in Lua
    # a numeral directly followed by a name character or '.' is a malformed
    # number in Lua; PICO-8's behaviour is not documented
    if i < n and Or(is_name_char(buf[i]), buf[i] == 46):
        return ABSTAIN
    return ('tok', 'number', i, None, ('normal',))


def number_before_concat(buf, n):
    """A numeral directly followed by '..' (1..x, 0x10..s, 1.5..x): Lua 5.2
    calls it a malformed number, picotool (and PICO-8 programs in the wild)
    read numeral, then the concatenation operator; step() abstains.  Under
    either reading no token ends *between* the two dots.  Returns the length
    of the numeral under the second reading, or None when buf is not of this
    shape."""
    c = buf[0]
    dec = True
    i = 0
    isd = is_digit
    if is_digit(c):
        if c == 48 and n > 1 and Or(buf[1] == 120, buf[1] == 88):
            dec = False
            i = 2
            isd = is_hexdigit
        elif c == 48 and n > 1 and Or(buf[1] == 98, buf[1] == 66):
            dec = False
            i = 2
            isd = is_bindigit
    elif c == 46 and n > 1 and is_digit(buf[1]):
        pass
    else:
        return None
    j = i
    while j < n and isd(buf[j]):
        j += 1
    intd = j > i
    if j < n and buf[j] == 46 and Not(j + 1 < n and buf[j + 1] == 46):
        k = j + 1
        while k < n and isd(buf[k]):
            k += 1
        if k == j + 1 and (not dec or not intd):
            return None
        j = k
    elif not intd:
        return None
    if dec and j < n and Or(buf[j] == 101, buf[j] == 69):
        m = j + 1
        if m < n and buf[m] == 45:
            m += 1
        if m < n and is_digit(buf[m]):
            while m < n and is_digit(buf[m]):
                m += 1
            j = m
        else:
            return None
    if j + 1 < n and buf[j] == 46 and buf[j + 1] == 46:
        return j
    return None


def digits_frac(buf, n, i, isd):
    """digits [ '.' digits ] | '.' digits ; returns (end, well-formed)."""
    j = i
    while j < n and isd(buf[j]):
        j += 1
    had_int = j > i
    if j < n and buf[j] == 46:
        k = j + 1
        while k < n and isd(buf[k]):
            k += 1
        if k == j + 1:
            return j, False         # trailing '.' without fraction digits
        return k, True
    return j, had_int


def step_string(buf, n, q):
    """Inside a quoted string opened with q: scan to the closing quote."""
    out = []
    i = 0
    while i < n:
        c = buf[i]
        if c == q:
            return ('tok', 'string', i + 1, out, ('normal',))
        if Or(c == 10, c == 13):
            return ABSTAIN          # raw line break inside a quoted string
        if c == 92:
            if i + 1 >= n:
                return ABSTAIN      # chunk ends after a backslash
            e = buf[i + 1]
            if is_digit(e):
                v = e - 48
                j = i + 2
                if j < n and is_digit(buf[j]):
                    v = v * 10 + (buf[j] - 48)
                    j += 1
                    if j < n and is_digit(buf[j]):
                        v = v * 10 + (buf[j] - 48)
                        j += 1
                if v > 255:
                    return ABSTAIN  # decimal escape too large
                out.append(v)
                i = j
                continue
            if e == 120:            # \xhh
                if i + 3 < n + 0 and is_hexdigit(buf[i + 2]) and \
                        is_hexdigit(buf[i + 3]):
                    out.append(hexval(buf[i + 2]) * 16 + hexval(buf[i + 3]))
                    i += 4
                    continue
                return ABSTAIN
            hit = False
            for k in SIMPLE_ESCAPES:
                if e == k:
                    out.append(SIMPLE_ESCAPES[k])
                    hit = True
                    break
            if hit:
                i += 2
                continue
            if e == 13:
                # line continuation with a CR / CRLF line end: one newline
                if i + 2 >= n:
                    return ABSTAIN  # chunk ends after the CR
                out.append(10)
                i += 3 if buf[i + 2] == 10 else 2
                continue
            return ABSTAIN          # \z, \u{..}, unknown escapes
        out.append(c)
        i += 1
    return ('more', 'string', n, out, ('string', q))


def step_block_comment(buf, n):
    i = 0
    while i + 1 < n:
        if buf[i] == 93 and buf[i + 1] == 93:
            return ('tok', 'comment', i + 2, None, ('normal',))
        i += 1
    return ('more', 'comment', n, None, ('comment',))


def newline_skip(content, n):
    """Length of the line break at the start of content (0, 1 or 2)."""
    if n > 0:
        if content[0] == 10:
            if n > 1 and content[1] == 13:
                return 2
            return 1
        if content[0] == 13:
            if n > 1 and content[1] == 10:
                return 2
            return 1
    return 0


def step_long_string(buf, n, level, fresh):
    """value = raw bytes of the string body seen in this chunk; the decoded
    value of the whole token drops the line break that directly follows the
    opening bracket (see newline_skip)."""
    i = 0
    while i < n:
        if buf[i] == 93:
            j = i + 1
            k = 0
            while j < n and k < level and buf[j] == 61:
                j += 1
                k += 1
            if k == level and j < n and buf[j] == 93:
                return ('tok', 'string', j + 1, [buf[t] for t in range(i)],
                        ('normal',))
        i += 1
    return ('more', 'string', n, [buf[t] for t in range(n)],
            ('long', level))
