"""Reference recursive-descent parser for the PICO-8 Lua dialect the
properties name: Lua 5.2 statements and expressions (manual section 9, "The
Complete Syntax of Lua") plus PICO-8's compound assignment, short `if (c) ...`
(one line, optional `else`), `?` print shorthand (rest of the line), `!=`,
the PICO-8 operators and `//` comments (comments never reach the parser).

It works on a list of *token views*: objects with
    t.index        position in the full token list (trivia included)
    t.is_(kinds)   bool/SBool: the token's kind name is in `kinds`
and produces a skeleton: nested lists
    ['chunk', stat, ...]
    statements: ['assign', targets, op_index, exps], ['call', chain],
      ['do', block], ['while', exp, block], ['repeat', block, exp],
      ['if', [cond, block]..., ['else', block]], ['shortif', cond, block,
      else_block_or_None], ['fornum', name_i, init, end, step_or_None, block],
      ['forin', names, exps, block], ['function', path, method_or_None,
      body], ['localfunction', name_i, body], ['local', names, exps_or_None],
      ['goto', name_i], ['label', i], ['break'], ['return', exps_or_None],
      ['print', qindex, exps]
    expressions (operators and operands in source order, no precedence):
      ['exp', item, ...] with items ['op', i] | ['un', i] | operand
      operands: ['nil'|'true'|'false'|'number'|'string'|'dots', i],
      ['function', body], ['table', field...], chain
      chain: ['chain', head, suffix...] head = ['name', i] | ['paren', exp]
      suffixes ['index', exp] ['attr', i] ['call', args] ['method', i, args]
      args: ['args', exps_or_None] | ['table', ...] | ['string', i]
      fields: ['fexp', exp] ['fnamed', i, exp] ['fkey', exp, exp]
      body: ['body', params (list of indexes), dots?, block]
Kind names: 'name', 'name?', 'number', 'string', 'label', 'newline',
'space', 'comment', keywords 'kw:<word>', symbols 'sym:<text>'.
Raises Reject when the tokens are not a program of the dialect."""
from symx.hx import And, Or, Not

BINOPS = ['sym:' + s for s in (
    '+', '-', '*', '/', '%', '^', '..', '<', '<=', '>', '>=', '==', '~=',
    '!=', '&', '|', '^^', '<<', '>>', '>>>', '<<>', '>><', '\\')] + \
    ['kw:and', 'kw:or']
UNOPS = ['sym:-', 'sym:#', 'sym:~', 'sym:@', 'sym:%', 'sym:$', 'kw:not']
ASSIGNOPS = ['sym:=', 'sym:+=', 'sym:-=', 'sym:*=', 'sym:/=', 'sym:%=',
             'sym:..=']
COMPOUND = ASSIGNOPS[1:]
TRIVIA = ['space', 'newline', 'comment']
OPEN_BRACKETS = ['sym:(', 'sym:{', 'sym:[']
CLOSE_BRACKETS = ['sym:)', 'sym:}', 'sym:]']
BLOCK_END = ['kw:end', 'kw:else', 'kw:elseif', 'kw:until']


class Reject(Exception):
    pass


class Abstain(Exception):
    """The documentation does not settle what PICO-8 does here: no claim."""


class P:
    def __init__(self, toks):
        self.all = toks                  # full list, trivia included
        self.pos = 0
        self.depth = 0                   # open blocks + brackets
        self.depths = {}                 # token index -> depth at the token
        self.high = -1                   # highest token index consumed
        self.fence = None                # short-if / ? line end (token index)

    # --- cursor -------------------------------------------------------------
    def next_index(self, start=None):
        """Index of the next significant token at/after the cursor (without
        moving the cursor), or None at the end / at the line fence."""
        k = self.pos if start is None else start
        while k < len(self.all) and self.all[k].is_(TRIVIA):
            k += 1
        if k < len(self.all) and (self.fence is None or k < self.fence):
            return k
        return None

    def peek(self):
        k = self.next_index()
        return None if k is None else self.all[k]

    def at(self, kinds):
        t = self.peek()
        if t is None:
            return False
        return t.is_(kinds)

    def at2(self, kinds):
        """Does the significant token after the next one have a kind in
        `kinds`?"""
        k = self.next_index()
        if k is None:
            return False
        k2 = self.next_index(k + 1)
        if k2 is None:
            return False
        return self.all[k2].is_(kinds)

    def take(self, kinds=None, what='token'):
        k = self.next_index()
        if k is None:
            raise Reject('expected %s at end' % what)
        t = self.all[k]
        if kinds is not None and not t.is_(kinds):
            raise Reject('expected %s' % what)
        self.pos = k + 1
        if k > self.high:
            self.high = k
        # brackets: a closing bracket counts as already closed; an opening
        # one opens after itself
        if t.is_(CLOSE_BRACKETS):
            self.depth -= 1
        self.depths[k] = self.depth
        if t.is_(OPEN_BRACKETS):
            self.depth += 1
        return t.index

    def open(self):
        self.depth += 1

    def close(self):
        """Called *before* taking a closing token (it counts as already
        closed)."""
        self.depth -= 1

    def line_end_from(self, pos):
        """Index of the first newline token at/after pos (or len)."""
        k = pos
        while k < len(self.all) and not self.all[k].is_(['newline']):
            k += 1
        return k

    # --- blocks and statements --------------------------------------------------
    def chunk(self):
        out = ['chunk']
        while True:
            while self.at(['sym:;']):
                self.take()
            if self.peek() is None or self.at(BLOCK_END):
                break
            if self.at(['kw:return']):
                self.take()
                exps = None
                if self.peek() is not None and not self.at(
                        BLOCK_END + ['sym:;']):
                    exps = self.explist()
                while self.at(['sym:;']):
                    self.take()
                out.append(['return', exps])
                break
            out.append(self.stat())
        return out

    def block_until(self, kinds, what):
        """A block opened by the token just taken, up to its terminator."""
        self.open()
        b = self.chunk()
        self.close()
        self.take(kinds, what)
        return b

    def stat(self):
        if self.at(['kw:break']):
            self.take()
            return ['break']
        if self.at(['kw:goto']):
            self.take()
            return ['goto', self.take(['name'], 'label name')]
        if self.at(['label']):
            return ['label', self.take()]
        if self.at(['kw:do']):
            self.take()
            return ['do', self.block_until(['kw:end'], 'end')]
        if self.at(['kw:while']):
            self.take()
            e = self.exp()
            self.take(['kw:do'], 'do')
            return ['while', e, self.block_until(['kw:end'], 'end')]
        if self.at(['kw:repeat']):
            self.take()
            b = self.block_until(['kw:until'], 'until')
            return ['repeat', b, self.exp()]
        if self.at(['kw:if']):
            return self.if_stat()
        if self.at(['kw:for']):
            return self.for_stat()
        if self.at(['kw:function']):
            self.take()
            path = [self.take(['name'], 'function name')]
            method = None
            while self.at(['sym:.']):
                self.take()
                path.append(self.take(['name'], 'name'))
            if self.at(['sym::']):
                self.take()
                method = self.take(['name'], 'method name')
            return ['function', path, method, self.funcbody()]
        if self.at(['kw:local']):
            self.take()
            if self.at(['kw:function']):
                self.take()
                n = self.take(['name'], 'function name')
                return ['localfunction', n, self.funcbody()]
            names = [self.take(['name'], 'name')]
            while self.at(['sym:,']):
                self.take()
                names.append(self.take(['name'], 'name'))
            exps = None
            if self.at(['sym:=']):
                self.take()
                exps = self.explist()
            return ['local', names, exps]
        if self.at(['name?']):
            return self.print_stat()
        # assignment or call
        first = self.suffixedexp()
        if self.at(ASSIGNOPS + ['sym:,']):
            targets = [first]
            while self.at(['sym:,']):
                self.take()
                targets.append(self.suffixedexp())
            for t in targets:
                if not is_var(t):
                    raise Reject('cannot assign to this expression')
            op = self.take(ASSIGNOPS, 'assignment operator')
            return ['assign', targets, op, self.explist()]
        if not is_call(first):
            raise Reject('syntax error: expression is not a statement')
        return ['call', first]

    def print_stat(self):
        """? explist <end of line>"""
        q = self.take(['name?'])
        old = self.fence
        end = self.line_end_from(self.pos)
        if old is not None and old < end:
            end = old
        self.fence = end
        try:
            exps = self.explist()
            if self.peek() is not None:
                raise Reject('junk after ? arguments')
        finally:
            self.fence = old
        return ['print', q, exps]

    def if_stat(self):
        self.take(['kw:if'])
        cond = self.exp()
        if self.at(['kw:then']):
            self.take()
            self.open()
            out = ['if', [cond, self.chunk()]]
            while self.at(['kw:elseif']):
                self.close()
                self.take()
                c = self.exp()
                self.take(['kw:then'], 'then')
                self.open()
                out.append([c, self.chunk()])
            if self.at(['kw:else']):
                self.close()
                self.take()
                self.open()
                out.append(['else', self.chunk()])
            self.close()
            self.take(['kw:end'], 'end')
            return out
        # PICO-8 short form: if (cond) stats [else stats] <end of line>
        if not is_paren_only(cond):
            raise Reject('expected then')
        if self.at(['kw:do']):
            raise Abstain('if (cond) do: an undocumented loophole')
        old = self.fence
        end = self.line_end_from(self.pos)
        if old is not None and old < end:
            end = old
        self.fence = end
        try:
            body = self.chunk()
            if len(body) == 1:
                raise Abstain('short if with nothing after the condition')
            els = None
            if self.at(['kw:else']):
                self.take()
                els = self.chunk()
                if len(els) == 1:
                    els = None      # an empty else part is no else part
            if self.peek() is not None:
                raise Reject('junk at the end of a short if line')
        finally:
            self.fence = old
        return ['shortif', cond, body, els]

    def for_stat(self):
        self.take(['kw:for'])
        n = self.take(['name'], 'name')
        if self.at(['sym:=']):
            self.take()
            a = self.exp()
            self.take(['sym:,'], ',')
            b = self.exp()
            c = None
            if self.at(['sym:,']):
                self.take()
                c = self.exp()
            self.take(['kw:do'], 'do')
            return ['fornum', n, a, b, c, self.block_until(['kw:end'],
                                                            'end')]
        names = [n]
        while self.at(['sym:,']):
            self.take()
            names.append(self.take(['name'], 'name'))
        self.take(['kw:in'], 'in')
        exps = self.explist()
        self.take(['kw:do'], 'do')
        return ['forin', names, exps, self.block_until(['kw:end'], 'end')]

    def funcbody(self):
        self.take(['sym:('], '(')
        params = []
        dots = False
        if not self.at(['sym:)']):
            while True:
                if self.at(['sym:...']):
                    self.take()
                    dots = True
                    break
                params.append(self.take(['name'], 'parameter name'))
                if self.at(['sym:,']):
                    self.take()
                    continue
                break
        self.take(['sym:)'], ')')
        return ['body', params, dots, self.block_until(['kw:end'], 'end')]

    # --- expressions -----------------------------------------------------------------
    def explist(self):
        out = [self.exp()]
        while self.at(['sym:,']):
            self.take()
            out.append(self.exp())
        return out

    def exp(self):
        items = ['exp']
        self.operand(items)
        while self.at(BINOPS):
            items.append(['op', self.take()])
            self.operand(items)
        return items

    def operand(self, items):
        while self.at(UNOPS):
            items.append(['un', self.take()])
        if self.at(['kw:nil']):
            items.append(['nil', self.take()])
        elif self.at(['kw:true']):
            items.append(['true', self.take()])
        elif self.at(['kw:false']):
            items.append(['false', self.take()])
        elif self.at(['number']):
            items.append(['number', self.take()])
        elif self.at(['string']):
            items.append(['string', self.take()])
        elif self.at(['sym:...']):
            items.append(['dots', self.take()])
        elif self.at(['kw:function']):
            self.take()
            items.append(['function', self.funcbody()])
        elif self.at(['sym:{']):
            items.append(self.table())
        else:
            items.append(self.suffixedexp())

    def table(self):
        self.take(['sym:{'], '{')
        out = ['table']
        while not self.at(['sym:}']):
            if self.at(['sym:[']):
                self.take()
                k = self.exp()
                self.take(['sym:]'], ']')
                self.take(['sym:='], '=')
                out.append(['fkey', k, self.exp()])
            elif self.at(['name']) and self.at2(['sym:=']):
                n = self.take()
                self.take(['sym:='])
                out.append(['fnamed', n, self.exp()])
            else:
                out.append(['fexp', self.exp()])
            if self.at(['sym:,', 'sym:;']):
                self.take()
            else:
                break
        self.take(['sym:}'], '}')
        return out

    def suffixedexp(self):
        if self.at(['name', 'name?']):
            # '?' can only start a statement, never an expression
            if self.at(['name?']):
                raise Reject('? inside an expression')
            out = ['chain', ['name', self.take()]]
        elif self.at(['sym:(']):
            self.take()
            e = self.exp()
            self.take(['sym:)'], ')')
            out = ['chain', ['paren', e]]
        else:
            raise Reject('unexpected symbol')
        while True:
            if self.at(['sym:.']):
                self.take()
                out.append(['attr', self.take(['name'], 'name')])
            elif self.at(['sym:[']):
                self.take()
                e = self.exp()
                self.take(['sym:]'], ']')
                out.append(['index', e])
            elif self.at(['sym::']):
                self.take()
                n = self.take(['name'], 'method name')
                out.append(['method', n, self.args()])
            elif self.at(['sym:(', 'sym:{', 'string']):
                out.append(['call', self.args()])
            else:
                return out

    def args(self):
        if self.at(['string']):
            return ['string', self.take()]
        if self.at(['sym:{']):
            return self.table()
        self.take(['sym:('], 'function arguments')
        exps = None
        if not self.at(['sym:)']):
            exps = self.explist()
        self.take(['sym:)'], ')')
        return ['args', exps]


def is_var(chain):
    last = chain[-1]
    if len(chain) == 2:
        return last[0] == 'name'
    return last[0] in ('attr', 'index')


def is_call(chain):
    return len(chain) > 2 and chain[-1][0] in ('call', 'method')


def is_paren_only(exp):
    """exp is exactly one parenthesised expression: ['exp', ['chain',
    ['paren', e]]]"""
    return (len(exp) == 2 and exp[1][0] == 'chain' and len(exp[1]) == 2 and
            exp[1][1][0] == 'paren')


def parse(toks, want_depths=False):
    """Skeleton of the whole program; raises Reject.  With want_depths also
    the number of blocks and brackets open at each significant token."""
    p = P(toks)
    sk = p.chunk()
    if p.peek() is not None:
        raise Reject('unexpected token after the end of the program')
    if want_depths:
        return sk, p.depths
    return sk
