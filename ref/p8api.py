"""PICO-8 API and callback names (reference list for C02).

Written from the PICO-8 manual's API reference (0.2.x), independently of
picotool's own PICO8_BUILTINS table, and deliberately conservative: only
functions the manual documents as part of the API.  A program that calls one
of these and is minified must still call it, so luamin has to leave the name
alone.  Names picotool reserves beyond this list are its own business."""
API_NAMES = '''
print cls pset pget sset sget fget fset spr sspr map mget mset rect rectfill
circ circfill oval ovalfill line pal palt color cursor camera clip fillp
tline flip btn btnp sfx music peek poke peek2 poke2 peek4 poke4 memcpy memset
reload cstore cartdata dget dset rnd srand flr ceil abs min max mid sgn sqrt
sin cos atan2 band bor bxor bnot shl shr lshr rotl rotr sub tostr tonum chr
ord split add del deli all foreach pairs ipairs next inext count type assert
stat time t menuitem extcmd printh serial run stop
setmetatable getmetatable rawget rawset rawequal rawlen
cocreate coresume costatus yield pack unpack select
_init _update _update60 _draw
'''.split()
