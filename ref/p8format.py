"""Reference encoders/decoders of the PICO-8 on-disk formats (C03/C04/C16).

Written from the PICO-8 manual / wiki format descriptions:
  .p8  __gfx__/__label__: 128 rows of 128 hex digits, one digit per pixel in
       screen order (memory: low nibble = left pixel of a pair)
       __gff__: 2 rows of 256 hex digits; __map__: 32 rows of 256 hex digits
       __sfx__: 64 rows: 4 header bytes (editor mode, speed, loop start, loop
       end; memory bytes 64..67 of the 68-byte pattern) + 32 notes of five
       hex digits: pitch (2), waveform (1), volume (1), effect (1); the
       memory note word is little endian: bits 0-5 pitch, 6-8 waveform,
       9-11 volume, 12-14 effect, 15 custom-instrument (waveform bit 3)
       __music__: 64 rows "ff c1c2c3c4": ff = flags (bit0 loop start,
       bit1 loop end, bit2 stop) taken from bit 7 of channel bytes 0,1,2
  .p8.png: byte k of gfx|map|gff|music|sfx|code|version in pixel k (row
       major, 160 wide); bits 7-6 alpha, 5-4 red, 3-2 green, 1-0 blue, each
       in the two low bits of the channel
All functions take and return lists of ints (symbolic ints allowed)."""
from symx.hx import And, Or, Not, Ite


def hexdigit(n):
    return Ite(n < 10, 48 + n, 87 + n)


def hexbyte(b):
    return [hexdigit((b >> 4) & 15), hexdigit(b & 15)]


def unhex(c):
    """Value of a hex digit character code (lower or upper case)."""
    return Ite(c <= 57, c - 48, Ite(c >= 97, c - 87, c - 55))


def is_hex(c):
    return Or(And(c >= 48, c <= 57), And(c >= 97, c <= 102),
              And(c >= 65, c <= 70))


NL = 10


# --- gfx / label ---------------------------------------------------------------

def gfx_row(mem64):
    out = []
    for b in mem64:
        out.append(hexdigit(b & 15))          # left pixel first
        out.append(hexdigit((b >> 4) & 15))
    out.append(NL)
    return out


def gfx_row_decode(chars128):
    out = []
    for k in range(0, 128, 2):
        out.append(unhex(chars128[k]) | (unhex(chars128[k + 1]) << 4))
    return out


# --- plain hex rows (gff, map) -------------------------------------------------

def hex_row(mem):
    out = []
    for b in mem:
        out.extend(hexbyte(b))
    out.append(NL)
    return out


def hex_row_decode(chars):
    out = []
    for k in range(0, len(chars), 2):
        out.append((unhex(chars[k]) << 4) | unhex(chars[k + 1]))
    return out


# --- sfx --------------------------------------------------------------------------

def sfx_row(pat68):
    out = []
    for k in range(64, 68):
        out.extend(hexbyte(pat68[k]))
    for n in range(32):
        w = pat68[2 * n] | (pat68[2 * n + 1] << 8)
        pitch = w & 63
        wave = ((w >> 6) & 7) | (((w >> 15) & 1) << 3)
        vol = (w >> 9) & 7
        eff = (w >> 12) & 7
        out.extend(hexbyte(pitch))
        out.append(hexdigit(wave))
        out.append(hexdigit(vol))
        out.append(hexdigit(eff))
    out.append(NL)
    return out


def sfx_row_decode(chars168):
    """68 memory bytes from a 168-digit sfx row."""
    pat = [0] * 68
    for k in range(4):
        pat[64 + k] = (unhex(chars168[2 * k]) << 4) | unhex(
            chars168[2 * k + 1])
    for n in range(32):
        o = 8 + 5 * n
        pitch = (unhex(chars168[o]) << 4) | unhex(chars168[o + 1])
        wave = unhex(chars168[o + 2])
        vol = unhex(chars168[o + 3])
        eff = unhex(chars168[o + 4])
        w = (pitch & 63) | ((wave & 7) << 6) | ((vol & 7) << 9) | \
            ((eff & 7) << 12) | (((wave >> 3) & 1) << 15)
        pat[2 * n] = w & 255
        pat[2 * n + 1] = (w >> 8) & 255
    return pat


# --- music ----------------------------------------------------------------------

def music_row(b4):
    flags = ((b4[0] >> 7) & 1) | (((b4[1] >> 7) & 1) << 1) | \
        (((b4[2] >> 7) & 1) << 2)
    out = hexbyte(flags) + [32]
    for k in range(4):
        out.extend(hexbyte(b4[k] & 127))
    out.append(NL)
    return out


def music_row_decode(chars):
    """4 memory bytes from 'ff c1c2c3c4' (11 chars)."""
    flags = (unhex(chars[0]) << 4) | unhex(chars[1])
    out = []
    for k in range(4):
        c = (unhex(chars[3 + 2 * k]) << 4) | unhex(chars[4 + 2 * k])
        if k < 3:
            c = c | (((flags >> k) & 1) << 7)
        out.append(c)
    return out


# --- PNG steganography ------------------------------------------------------------

def png_pixel(byte, r, g, b, a):
    """New (r, g, b, a) of the pixel carrying `byte`."""
    return [(r & 252) | ((byte >> 4) & 3), (g & 252) | ((byte >> 2) & 3),
            (b & 252) | (byte & 3), (a & 252) | ((byte >> 6) & 3)]


def png_byte(r, g, b, a):
    return ((a & 3) << 6) | ((r & 3) << 4) | ((g & 3) << 2) | (b & 3)


MEMORY_MAP = (('gfx', 0x0000, 0x2000), ('map', 0x2000, 0x3000),
              ('gff', 0x3000, 0x3100), ('music', 0x3100, 0x3200),
              ('sfx', 0x3200, 0x4300), ('code', 0x4300, 0x8000),
              ('version', 0x8000, 0x8001))
