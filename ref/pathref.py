"""Reference path containment (POSIX): component-wise, independent of the
implementation's string prefix test."""
from symx.hx import And, Or, Not


def components(path):
    """Normalised absolute components of an absolute path string (handles
    '.', '..' and repeated separators); path is a str / symbolic str."""
    out = []
    cur = []
    items = list(path) + ['/']
    for ch in items:
        if ch == '/':
            if len(cur) == 0:
                pass
            elif len(cur) == 1 and cur[0] == '.':
                pass
            elif len(cur) == 2 and cur[0] == '.' and cur[1] == '.':
                if out:
                    out.pop()
            else:
                out.append(cur)
            cur = []
        else:
            cur.append(ch)
    return out


def inside(root_components, path):
    """path (absolute) lies in the directory root or below it."""
    pc = components(path)
    if len(pc) < len(root_components):
        return False
    for a, b in zip(root_components, pc):
        if len(a) != len(b):
            return False
        for x, y in zip(a, b):
            if x != y:
                return False
    return True
