"""Reference decoder for the PICO-8 ':c:' code compression format, written
from the format description (PICO-8 wiki, "P8PNGFileFormat", old compression):

  header  ':c:\\0'  len_hi len_lo  0 0     (len = decompressed length)
  stream  0x00 b        literal byte b
          0x01..0x3b    character n of the table
                        "\\n 0123456789abcdefghijklmnopqrstuvwxyz!#%(){}[]<>+=/*:;.,~_"
                        (index 1 = newline)
          0x3c..0xff b2 copy: offset = (b - 0x3c) * 16 + (b2 & 15),
                        length = (b2 >> 4) + 2, copied byte by byte from
                        `offset` bytes back in the output
A stream is well formed when every copy has length 3..17 and 1 <= offset <=
number of bytes produced so far, and no code is cut short."""
from symx.hx import And, Or, Not, Ite

TABLE = b'\n 0123456789abcdefghijklmnopqrstuvwxyz!#%(){}[]<>+=/*:;.,~_'


def table_char(code):
    """Character for stream code 1..0x3b."""
    r = TABLE[len(TABLE) - 1]
    for k in range(len(TABLE) - 2, -1, -1):
        r = Ite(code == k + 1, TABLE[k], r)
    return r


def decode(stream, limit=None):
    """Returns (output list, well_formed).  Stops after `limit` output bytes
    when given (the header length), else at the end of the stream."""
    out = []
    i = 0
    n = len(stream)
    ok = True
    while i < n and (limit is None or len(out) < limit):
        b = stream[i]
        if b == 0:
            if i + 1 >= n:
                return out, False
            out.append(stream[i + 1])
            i += 2
        elif b <= 0x3b:
            out.append(table_char(b))
            i += 1
        else:
            if i + 1 >= n:
                return out, False
            b2 = stream[i + 1]
            offset = (b - 0x3c) * 16 + (b2 & 15)
            length = (b2 >> 4) + 2
            if length < 3:
                return out, False
            if Or(offset < 1, offset > len(out)):
                return out, False
            # byte-by-byte copy (may overlap its own output)
            for k in range(length):          # length is concrete per path
                out.append(pick(out, len(out) - offset))
            i += 2
    return out, ok


def pick(out, idx):
    """out[idx] for a possibly symbolic index."""
    return out[idx]
