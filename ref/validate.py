"""Validates the reference codecs against the PICO-8-written fixtures in
/repo/tests/testdata: the memory decoded from X.p8.png with ref.p8format must
encode (ref row encoders) to exactly the section rows of X.p8, and those rows
must decode back.  Run natively:  python -m ref.validate"""
import os
import sys
import png

from ref import p8format as F

TD = os.path.join(os.environ.get('SYMX_REPO', '/repo'), 'tests', 'testdata')


def png_memory(path):
    w, h, rows, attrs = png.Reader(filename=path).read()
    planes = attrs['planes']
    mem = []
    for row in rows:
        for c in range(w):
            px = row[c * planes:c * planes + 4]
            mem.append(F.png_byte(px[0], px[1], px[2], px[3]))
    return mem


def p8_sections(path):
    secs = {}
    cur = None
    with open(path, 'rb') as fh:
        for line in fh:
            if line.startswith(b'__') and line.rstrip().endswith(b'__'):
                cur = line.strip().strip(b'_').decode()
                secs[cur] = []
            elif cur:
                secs[cur].append(line)
    return secs


def main():
    checked = 0
    bad = 0
    for name in sorted(os.listdir(TD)):
        if not name.endswith('.p8'):
            continue
        pp = os.path.join(TD, name + '.png')
        if not os.path.exists(pp):
            continue
        mem = png_memory(pp)
        secs = p8_sections(os.path.join(TD, name))
        enc = {
            'gfx': [bytes(F.gfx_row(mem[k:k + 64]))
                    for k in range(0, 0x2000, 64)],
            'map': [bytes(F.hex_row(mem[k:k + 128]))
                    for k in range(0x2000, 0x3000, 128)],
            'gff': [bytes(F.hex_row(mem[k:k + 128]))
                    for k in range(0x3000, 0x3100, 128)],
            'music': [bytes(F.music_row(mem[k:k + 4]))
                      for k in range(0x3100, 0x3200, 4)],
            'sfx': [bytes(F.sfx_row(mem[k:k + 68]))
                    for k in range(0x3200, 0x4300, 68)],
        }
        dec = {'gfx': lambda l: F.gfx_row_decode(list(l[:128])),
               'map': lambda l: F.hex_row_decode(list(l[:256])),
               'gff': lambda l: F.hex_row_decode(list(l[:256])),
               'music': lambda l: F.music_row_decode(list(l)),
               'sfx': lambda l: F.sfx_row_decode(list(l[:168]))}
        for sec, rows in enc.items():
            have = [l for l in secs.get(sec, []) if l.strip()]
            # PICO-8 omits trailing rows only in later versions; compare the
            # rows that are present
            for k, l in enumerate(have):
                checked += 1
                if l != rows[k]:
                    # music channel 4 bit 7 has no place in the .p8 row
                    bad += 1
                    print('MISMATCH %s %s row %d\n  file=%r\n  ref =%r' % (
                        name, sec, k, l, rows[k]))
                    continue
                back = dec[sec](l)
                base = {'gfx': 0, 'map': 0x2000, 'gff': 0x3000,
                        'music': 0x3100, 'sfx': 0x3200}[sec]
                width = len(back)
                orig = mem[base + k * width: base + (k + 1) * width]
                if sec == 'music':
                    orig = orig[:3] + [orig[3] & 127]
                    back = back[:3] + [back[3] & 127]
                if list(back) != list(orig):
                    bad += 1
                    print('DECODE MISMATCH %s %s row %d' % (name, sec, k))
    print('ref.validate: %d fixture rows checked, %d mismatches' %
          (checked, bad))
    return 1 if bad or not checked else 0


if __name__ == '__main__':
    sys.exit(main())
