#!/bin/sh
# Builds /verif/.venv offline: overlay of /venv (repo deps) + z3-solver,
# cvc5, jsonschema from the local wheelhouse.
set -e
HERE="$(cd "$(dirname "$0")" && pwd)"
cd "$HERE"
WH=/opt/veriftools/wheels
if [ ! -x .venv/bin/python ] || ! .venv/bin/python -c "import z3, png" 2>/dev/null; then
  rm -rf .venv
  /venv/bin/python -m venv .venv
  SP=$(.venv/bin/python -c "import sysconfig;print(sysconfig.get_paths()['purelib'])")
  echo "import site; site.addsitedir('/venv/lib/python3.12/site-packages')" > "$SP/_overlay.pth"
  PIP_NO_INDEX=1 .venv/bin/python -m pip install -q --no-index --find-links $WH z3-solver cvc5 jsonschema
fi
.venv/bin/python -c "import z3, png, jsonschema; print('symx venv ok, z3', z3.get_version_string())"
