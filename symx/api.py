"""Harness-facing API: contexts (symbolic and native), harness registry,
normal form of outputs."""
import z3
from . import core, seq
from .core import SInt, SBool, cur, mkint
from .seq import SSeq, SBytes, SStr, SByteArray, MSeq


class Harness:
    def __init__(self, name, fn, quick, thorough=None, logic='QF_BV',
                 doc=''):
        self.name = name
        self.fn = fn
        self.quick = quick            # list of param dicts
        self.thorough = thorough if thorough is not None else quick
        self.logic = logic
        self.doc = doc or (fn.__doc__ or '')


class CheckFailed(Exception):
    pass


# ---------------------------------------------------------------------------
# normal form (JSON-able) of values, shared by both modes
# ---------------------------------------------------------------------------

def normal(v, model=None):
    """JSON-able normal form; symbolic parts evaluated under `model`."""
    t = type(v)
    if v is None or t in (bool, int, str):
        return v
    if t is float:
        return {'f': repr(v)}
    if t in (bytes, bytearray):
        return {'b': bytes(v).hex()}
    if t is SInt:
        return core._signed(model.eval(v.e, model_completion=True).as_long())
    if t is SBool:
        return z3.is_true(model.eval(v.e, model_completion=True))
    if isinstance(v, SSeq):
        items = [normal(x, model) for x in v.items]
        if v.kind == seq.STR:
            return ''.join(map(chr, items))
        return {'b': bytes(items).hex()}
    if t is MSeq:
        n = normal(v.n, model)
        out = []
        for i in range(n):
            e = model.eval(v.f(z3.BitVecVal(i, core.W)),
                           model_completion=True)
            out.append(e.as_long() & 0xff)
        return {'b': bytes(out).hex()}
    if t in (list, tuple):
        return [normal(x, model) for x in v]
    if t is dict:
        return {'d': sorted([[normal(k, model), normal(x, model)]
                             for k, x in v.items()], key=repr)}
    if isinstance(v, BaseException):
        return {'exc': type(v).__name__}
    if isinstance(v, type):
        return {'type': v.__name__}
    return {'obj': type(v).__name__}


# ---------------------------------------------------------------------------
# symbolic context
# ---------------------------------------------------------------------------

class Ctx:
    mode = 'sym'
    symbolic = True

    def __init__(self, path, engine):
        self.path = path
        self.engine = engine
        self.outs = []
        self.checks = []       # (name, verdict, info)
        self.tags = []
        self.cleanups = []     # run by the explorer after the path

    # --- inputs -----------------------------------------------------------
    def _reg(self, name, kind, handle, meta=None):
        p = self.path
        if name in p.input_names:
            raise RuntimeError('duplicate input name %r' % name)
        p.input_names.add(name)
        p.inputs.append((name, kind, handle, meta))

    def int(self, name, lo, hi):
        if lo == hi:
            self._reg(name, 'const', lo)
            return lo
        v = z3.BitVec(name, core.W)
        self.path.assume(v >= lo)
        self.path.assume(v <= hi)
        self._reg(name, 'int', v)
        return SInt(v, lo, hi)

    def bool(self, name):
        v = z3.Bool(name)
        self._reg(name, 'bool', v)
        return SBool(v)

    def _elems(self, name, n, lo, hi):
        items = []
        hs = []
        for k in range(n):
            v = z3.BitVec('%s[%d]' % (name, k), core.W)
            self.path.assume(z3.And(v >= lo, v <= hi) if lo > 0 else
                             z3.ULE(v, hi))
            hs.append(v)
            items.append(SInt(v, lo, hi))
        return items, hs

    def bytes(self, name, n, lo=0, hi=255):
        items, hs = self._elems(name, n, lo, hi)
        self._reg(name, 'bytes', hs)
        return seq.make(seq.BYTES, items) if n else b''

    def bytearray(self, name, n, lo=0, hi=255):
        items, hs = self._elems(name, n, lo, hi)
        self._reg(name, 'bytearray', hs)
        return SByteArray(items)

    def str(self, name, n, lo=0, hi=0x7f):
        items, hs = self._elems(name, n, lo, hi)
        self._reg(name, 'str', hs)
        return seq.make(seq.STR, items) if n else ''

    def ints(self, name, n, lo, hi):
        items, hs = self._elems(name, n, lo, hi)
        self._reg(name, 'ints', hs)
        return items

    def mem(self, name, n):
        """Byte array of concrete length n with unconstrained contents,
        supporting symbolic indices (z3 array)."""
        a = z3.Array(name, z3.BitVecSort(core.W), z3.BitVecSort(8))
        self._reg(name, 'mem', a, n)
        return SByteArray(arr=a, n=n)

    def mseq(self, name, nlo, nhi, mutable=True):
        """Byte sequence of symbolic length in [nlo, nhi], uninterpreted
        contents."""
        f = z3.Function(name + '.at', z3.BitVecSort(core.W),
                        z3.BitVecSort(8))
        n = self.int(name + '.len', nlo, nhi)
        self._reg(name, 'mseq', f, n)
        return MSeq(n, lambda ie, f=f: z3.ZeroExt(core.W - 8, f(ie)),
                    mutable=mutable)

    def choice(self, name, options):
        """One of `options` (python objects), chosen by forking."""
        i = self.int(name, 0, len(options) - 1)
        if isinstance(i, SInt):
            i = i.__index__()
        return options[i]

    # --- assertions --------------------------------------------------------
    def assume(self, cond):
        if cond is True:
            return
        if cond is False:
            raise core.Infeasible('assume(False)')
        if isinstance(cond, SBool):
            if not self.path.feasible(cond.e):
                raise core.Infeasible('assumption infeasible')
            self.path.assume(cond.e)
            return
        if not cond:
            raise core.Infeasible('assume(False)')

    def check(self, name, cond, known=None, info=None):
        self.engine.check(self, name, cond, known, info)

    def check_all(self, name, conds):
        """Discharge each obligation separately (never one big conjunction:
        see DESIGN 1, closing-query strategy)."""
        for k, c in enumerate(conds):
            self.engine.check(self, name, c, None, k)

    def out(self, name, value):
        self.outs.append((name, value))

    def tag(self, t):
        self.tags.append(t)

    def conc(self, v):
        """Concrete python int of a symbolic int by forking (harness use)."""
        if isinstance(v, SInt):
            return v.__index__()
        if isinstance(v, SBool):
            return bool(v)
        if isinstance(v, SSeq):
            return seq.realise_seq(v)
        return v


# ---------------------------------------------------------------------------
# native context: same API over concrete inputs
# ---------------------------------------------------------------------------

class NCtx:
    mode = 'native'
    symbolic = False

    def __init__(self, inputs):
        self.inputs = inputs
        self.outs = []
        self.checks = []
        self.tags = []
        self.cleanups = []

    def _get(self, name, default):
        return self.inputs.get(name, default)

    def int(self, name, lo, hi):
        if lo == hi:
            return lo
        return int(self._get(name, lo))

    def bool(self, name):
        return bool(self._get(name, False))

    def bytes(self, name, n, lo=0, hi=255):
        v = self._get(name, [lo] * n)
        return bytes(v)

    def bytearray(self, name, n, lo=0, hi=255):
        return bytearray(self._get(name, [lo] * n))

    def str(self, name, n, lo=0, hi=0x7f):
        v = self._get(name, [lo] * n)
        return ''.join(map(chr, v))

    def ints(self, name, n, lo, hi):
        return list(self._get(name, [lo] * n))

    def mem(self, name, n):
        v = self._get(name, None)
        if v is None:
            return bytearray(n)
        if isinstance(v, dict):
            out = bytearray([v.get('else', 0)]) * n
            for k, b in v.get('at', {}).items():
                if 0 <= int(k) < n:
                    out[int(k)] = b
            return out
        return bytearray(v)

    def mseq(self, name, nlo, nhi, mutable=True):
        v = self._get(name, [0] * nlo)
        return bytearray(v) if mutable else bytes(v)

    def choice(self, name, options):
        return options[int(self._get(name, 0))]

    def assume(self, cond):
        if not cond:
            raise AssumptionViolated()

    def check(self, name, cond, known=None, info=None):
        self.checks.append((name, bool(cond), info if isinstance(
            info, (str, int, type(None))) else repr(info)))

    def check_all(self, name, conds):
        for k, c in enumerate(conds):
            self.check(name, c, None, k)

    def out(self, name, value):
        self.outs.append((name, value))

    def tag(self, t):
        self.tags.append(t)

    def conc(self, v):
        return v


class AssumptionViolated(Exception):
    pass


def inputs_from_model(path, model):
    """Concrete input dict (JSON-able) from a z3 model."""
    out = {}
    for name, kind, h, meta in path.inputs:
        if kind == 'const':
            out[name] = h
        elif kind == 'int':
            out[name] = core._signed(
                model.eval(h, model_completion=True).as_long())
        elif kind == 'bool':
            out[name] = z3.is_true(model.eval(h, model_completion=True))
        elif kind in ('bytes', 'bytearray', 'str', 'ints'):
            out[name] = [core._signed(
                model.eval(v, model_completion=True).as_long()) for v in h]
        elif kind == 'mem':
            out[name] = _array_model(model, h, meta)
        elif kind == 'mseq':
            n = out[name + '.len'] if (name + '.len') in out else None
            if n is None:
                n = normal(meta, model)
            out[name] = [model.eval(h(z3.BitVecVal(i, core.W)),
                                    model_completion=True).as_long()
                         for i in range(n)]
    return out


def _array_model(model, arr, n):
    """Sparse {'else': v, 'at': {idx: v}} from the array interpretation."""
    e = model.eval(arr, model_completion=True)
    at = {}
    default = 0
    # peel Store chain
    guard = 0
    while True:
        guard += 1
        if z3.is_store(e):
            idx = e.arg(1)
            val = e.arg(2)
            if z3.is_bv_value(idx) and z3.is_bv_value(val):
                k = idx.as_long()
                if str(k) not in at:
                    at[str(k)] = val.as_long()
                e = e.arg(0)
                continue
            break
        if z3.is_const_array(e):
            v = e.arg(0)
            if z3.is_bv_value(v):
                default = v.as_long()
                return {'else': default, 'at': at}
            break
        break
    # fallback: evaluate every cell
    out = []
    for i in range(n):
        out.append(model.eval(z3.Select(arr, z3.BitVecVal(i, core.W)),
                              model_completion=True).as_long())
    return out
