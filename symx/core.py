"""symx core: path state, forking, SBool / SInt proxy values.

A *path* is one execution of a harness scenario under a fixed sequence of
branch decisions.  Every time the executed code needs the truth value of a
symbolic condition, `Path.decide` is called; it follows the decision prefix
if there is one, otherwise asks z3 which sides are feasible, takes the first
feasible one and records the other one as a pending prefix to be explored by
re-execution.
"""
import z3

W = 32
MININT = -(1 << (W - 1))
MAXINT = (1 << (W - 1)) - 1


class PathAbort(BaseException):
    """Control-flow exceptions of the engine (not catchable by `except
    Exception` in the code under analysis)."""


class EngineLimit(PathAbort):
    """The engine cannot continue this path soundly: run is inconclusive."""


class Unsupported(EngineLimit):
    pass


class Infeasible(PathAbort):
    """The path condition became unsatisfiable (an assumption cut the path)."""


class Inconsistent(EngineLimit):
    """The engine found its own path condition unsatisfiable: a bug or a
    non-deterministic decision; never a pass."""


_cur = None
import os as _os
import sys as _sys
TRACE_FORKS = _os.environ.get('SYMX_TRACE_FORKS') or False


def _site():
    f = _sys._getframe(2)
    out = []
    while f is not None and len(out) < 3:
        fn = f.f_code.co_filename
        if '/symx/' not in fn:
            out.append('%s:%d' % (fn.replace('/repo/', '').replace(
                '/verif/', ''), f.f_lineno))
        f = f.f_back
    return ' < '.join(out)



def cur():
    if _cur is None:
        raise RuntimeError('no active symbolic path')
    return _cur


def set_cur(p):
    global _cur
    _cur = p


def active():
    return _cur is not None


class Stats:
    def __init__(self):
        self.checks = 0
        self.solver_s = 0.0
        self.decisions = 0
        self.forks = 0
        self.realisations = 0
        self.closing = 0
        self.unknown = 0


class Path:
    def __init__(self, prefix=(), logic='QF_BV', timeout_ms=None, seed=0):
        if timeout_ms is None:
            timeout_ms = int(_os.environ.get('SYMX_QUERY_TIMEOUT_MS',
                                              '20000'))
        self.prefix = list(prefix)
        self.decisions = []
        self.logic = logic
        if logic and logic not in ('QF_AUFBV', 'default'):
            self.solver = z3.SolverFor(logic)
        else:
            # measured: SolverFor('QF_AUFBV') hangs (ignoring the timeout) on
            # select-equality obligations the default solver decides in ms
            self.solver = z3.Solver()
        self.solver.set('timeout', timeout_ms)
        self.timeout_ms = timeout_ms
        self.incremental = bool(logic) and logic not in ('QF_AUFBV',
                                                        'default')
        self._last = self.solver
        self.dcache = {}
        if seed:
            try:
                self.solver.set('random_seed', seed & 0x7fffffff)
            except z3.Z3Exception:
                pass
        self.pc = []
        self.model = None
        self.pending = []
        self.nvars = 0
        self.stats = Stats()
        self.inputs = []      # (name, kind, handle, meta)
        self.input_names = set()
        self.notes = []
        self.max_decisions = 200000
        self.fork_sites = {}

    # -- fresh variables -------------------------------------------------
    def fresh_name(self, base):
        self.nvars += 1
        return '%s!%d' % (base, self.nvars)

    # -- solver ------------------------------------------------------------
    def _check(self, *extra):
        import time
        t = time.time()
        if self.incremental:
            r = self.solver.check(*extra)
            self._last = self.solver
        else:
            # non-incremental: z3's incremental core was measured to hang
            # (ignoring its timeout) on array/select-equality queries that
            # the tactic pipeline decides in milliseconds
            s2 = z3.Solver()
            s2.set('timeout', self.timeout_ms)
            s2.add(*self.pc)
            if extra:
                s2.add(*extra)
            r = s2.check()
            self._last = s2
        self.stats.solver_s += time.time() - t
        self.stats.checks += 1
        if r == z3.unknown:
            self.stats.unknown += 1
            raise EngineLimit('solver returned unknown: %s' %
                              self._last.reason_unknown())
        return r == z3.sat

    def last_model(self):
        return self._last.model()

    def feasible(self, cond):
        """Is pc /\\ cond satisfiable?  Caches the model when sat."""
        if self.model is not None:
            v = self.model.eval(cond, model_completion=True)
            if z3.is_true(v):
                return True
        ok = self._check(cond)
        if ok:
            self.model = self.last_model()
        return ok

    def assume(self, cond):
        """Add cond to the path condition (no feasibility check)."""
        if isinstance(cond, SBool):
            cond = cond.e
        elif isinstance(cond, bool):
            if not cond:
                raise Infeasible('assume(False)')
            return
        self.pc.append(cond)
        if self.incremental:
            self.solver.add(cond)
        if self.model is not None:
            v = self.model.eval(cond, model_completion=True)
            if not z3.is_true(v):
                self.model = None

    def get_model(self):
        if self.model is None:
            if not self._check():
                raise Inconsistent('path condition unsatisfiable')
            self.model = self.last_model()
        return self.model

    # -- decisions -----------------------------------------------------------
    def decide(self, cond):
        """Return the truth value of z3 Bool `cond` on this path, forking."""
        if z3.is_true(cond):
            return True
        if z3.is_false(cond):
            return False
        cond = z3.simplify(cond)
        if z3.is_true(cond):
            return True
        if z3.is_false(cond):
            return False
        cid = cond.get_id()
        hit = self.dcache.get(cid)
        if hit is not None and hit[0].eq(cond):
            return hit[1]
        r = self._decide(cond)
        self.dcache[cid] = (cond, r)
        return r

    def _decide(self, cond):
        k = len(self.decisions)
        if k >= self.max_decisions:
            raise EngineLimit('too many decisions on one path')
        self.stats.decisions += 1
        if TRACE_FORKS == 'all':
            site = 'D ' + _site() + ' :: ' + str(cond)[:80].replace('\n', ' ')
            self.fork_sites[site] = self.fork_sites.get(site, 0) + 1
        if k < len(self.prefix):
            choice = self.prefix[k]
            self.decisions.append(choice)
            self.assume(cond if (choice & 1) else z3.Not(cond))
            return bool(choice & 1)
        ncond = z3.Not(cond)
        mv = None
        if self.model is not None:
            v = self.model.eval(cond, model_completion=True)
            if z3.is_true(v):
                mv = True
            elif z3.is_false(v):
                mv = False
        mt = None
        if mv is True:
            ft = True
            ff = self._check(ncond)
        elif mv is False:
            ff = True
            ft = self._check(cond)
            if ft:
                mt = self.last_model()
        else:
            ft = self._check(cond)
            if ft:
                mt = self.last_model()
                ff = self._check(ncond)
            else:
                ff = self._check(ncond)
                if ff:
                    self.model = self.last_model()
        if ft:
            if mt is not None:
                self.model = mt
            if ff:
                self.stats.forks += 1
                self.pending.append(self.decisions + [0])
                if TRACE_FORKS:
                    site = _site()
                    if TRACE_FORKS == 'cond':
                        site += ' :: ' + str(cond)[:160].replace('\n', ' ')
                    self.fork_sites[site] = self.fork_sites.get(site, 0) + 1
                self.decisions.append(1)
                self.assume(cond)
            else:
                self.decisions.append(3)     # forced: implied by pc
            return True
        if ff:
            self.decisions.append(2)
            return False
        raise Inconsistent('both sides of a decision infeasible')

    def min_value(self, e, lo, hi):
        """Smallest signed value of BV term e under the path condition, by
        binary search with solver checks (not decisions).  Deterministic: it
        depends only on the path condition, never on which model the solver
        happens to return -- decisions must be reproducible on replay."""
        if not self._check(z3.And(e >= lo, e <= hi)):
            return None
        a, b = lo, hi
        # use the model to shrink the upper bound quickly
        mv = _signed(self.last_model().eval(e, model_completion=True)
                     .as_long())
        if a <= mv <= b:
            b = mv
        while a < b:
            mid = (a + b) // 2
            if self._check(z3.And(e >= a, e <= mid)):
                b = mid
                mv = _signed(self.last_model().eval(
                    e, model_completion=True).as_long())
                if a <= mv < b:
                    b = mv
            else:
                a = mid + 1
        return a

    def realise_int(self, e, cap=64, what='int', lo=MININT, hi=MAXINT):
        """Fork over the concrete values of BV term e in increasing order
        (at most cap values)."""
        e = z3.simplify(e)
        if z3.is_bv_value(e):
            return _signed(e.as_long())
        self.stats.realisations += 1
        if hi - lo <= 65536:
            # balanced bisection on the (concrete) interval: deterministic,
            # logarithmic depth, and the fork tree parallelises well
            a, b = lo, hi
            while a < b:
                mid = (a + b) // 2
                if self.decide(e <= mid):
                    b = mid
                else:
                    a = mid + 1
            if not self.decide(e == a):
                raise Inconsistent('bisection ended outside the interval')
            return a
        n = 0
        cur_lo = lo
        while True:
            v = self.min_value(e, cur_lo, hi)
            if v is None:
                raise Inconsistent('no value left while realising %s' %
                                   what)
            if self.decide(e == v):
                return v
            cur_lo = v + 1
            n += 1
            if n >= cap:
                raise EngineLimit('realisation fan-out over %d for %s' %
                                  (cap, what))


def _signed(u):
    return u - (1 << W) if u >= (1 << (W - 1)) else u


# ---------------------------------------------------------------------------
# SBool
# ---------------------------------------------------------------------------

class SBool:
    __slots__ = ('e',)

    def __init__(self, e):
        self.e = e

    def __bool__(self):
        return cur().decide(self.e)

    def __repr__(self):
        return '<SBool>'

    __str__ = __repr__

    def __hash__(self):
        return hash(bool(self))

    # logical combinators that do not fork
    def __and__(self, o):
        if isinstance(o, SBool):
            return mkbool(z3.And(self.e, o.e))
        if isinstance(o, bool):
            return self if o else False
        return NotImplemented

    __rand__ = __and__

    def __or__(self, o):
        if isinstance(o, SBool):
            return mkbool(z3.Or(self.e, o.e))
        if isinstance(o, bool):
            return True if o else self
        return NotImplemented

    __ror__ = __or__

    def __invert__(self):
        return mkbool(z3.Not(self.e))

    def __eq__(self, o):
        if isinstance(o, SBool):
            return mkbool(self.e == o.e)
        if isinstance(o, bool):
            return self if o else mkbool(z3.Not(self.e))
        if isinstance(o, (int, SInt)):
            return to_sint(self) == o
        return False

    def __ne__(self, o):
        r = self.__eq__(o)
        return Not(r)

    # arithmetic use of booleans (True == 1)
    def _asint(self):
        return to_sint(self)

    def __add__(self, o):
        return self._asint() + o

    __radd__ = __add__

    def __lshift__(self, o):
        return self._asint() << o

    def __index__(self):
        return 1 if bool(self) else 0

    __int__ = __index__


def mkbool(e):
    if z3.is_true(e):
        return True
    if z3.is_false(e):
        return False
    return SBool(e)


def bexpr(b):
    """z3 Bool for a Python bool / SBool."""
    if isinstance(b, SBool):
        return b.e
    if isinstance(b, bool):
        return z3.BoolVal(b)
    if isinstance(b, SInt):
        return b.e != 0
    if isinstance(b, int):
        return z3.BoolVal(b != 0)
    if z3.is_expr(b):
        return b
    return z3.BoolVal(bool(b))


def And(*bs):
    es = []
    for b in bs:
        if b is True:
            continue
        if b is False:
            return False
        es.append(bexpr(b))
    if not es:
        return True
    if len(es) == 1:
        return mkbool(es[0])
    return mkbool(z3.And(*es))


def Or(*bs):
    es = []
    for b in bs:
        if b is False:
            continue
        if b is True:
            return True
        es.append(bexpr(b))
    if not es:
        return False
    if len(es) == 1:
        return mkbool(es[0])
    return mkbool(z3.Or(*es))


def Not(b):
    if b is True:
        return False
    if b is False:
        return True
    if isinstance(b, SBool):
        return mkbool(z3.Not(b.e))
    if b is NotImplemented:
        return b
    return not b


def Implies(a, b):
    return Or(Not(a), b)


def Ite(c, a, b):
    """Non-forking conditional over ints/SInts/bools."""
    if c is True:
        return a
    if c is False:
        return b
    if isinstance(c, SBool):
        if isinstance(a, (bool, SBool)) and isinstance(b, (bool, SBool)):
            return mkbool(z3.If(c.e, bexpr(a), bexpr(b)))
        if isinstance(a, (int, SInt)) and isinstance(b, (int, SInt)):
            la, ha = _ival(a)
            lb, hb = _ival(b)
            return mkint(z3.If(c.e, iexpr(a), iexpr(b)),
                         min(la, lb), max(ha, hb))
        return a if bool(c) else b
    return a if c else b


# ---------------------------------------------------------------------------
# SInt
# ---------------------------------------------------------------------------

def _bv(v):
    return z3.BitVecVal(v, W)


def iexpr(x):
    if isinstance(x, SInt):
        return x.e
    if isinstance(x, bool):
        return _bv(1 if x else 0)
    if isinstance(x, int):
        if not (MININT <= x <= MAXINT):
            raise EngineLimit('integer constant %d out of %d-bit range' %
                              (x, W))
        return _bv(x)
    if isinstance(x, SBool):
        return z3.If(x.e, _bv(1), _bv(0))
    raise TypeError('not an integer: %r' % (type(x),))


def _ival(x):
    if isinstance(x, SInt):
        return x.lo, x.hi
    if isinstance(x, SBool):
        return 0, 1
    x = int(x)
    return x, x


def mkint(e, lo, hi):
    if lo < MININT or hi > MAXINT:
        raise EngineLimit('integer interval [%d,%d] may leave %d-bit range' %
                          (lo, hi, W))
    if lo == hi:
        return lo
    return SInt(e, lo, hi)


def to_sint(x):
    if isinstance(x, SInt):
        return x
    if isinstance(x, SBool):
        return SInt(z3.If(x.e, _bv(1), _bv(0)), 0, 1)
    return x


def _isnum(o):
    return isinstance(o, (int, SInt, SBool))


def _bits(n):
    return n.bit_length()


class SInt:
    __slots__ = ('e', 'lo', 'hi')

    def __init__(self, e, lo=MININT, hi=MAXINT):
        self.e = e
        self.lo = lo
        self.hi = hi

    def __repr__(self):
        return '<SInt %d..%d>' % (self.lo, self.hi)

    def __str__(self):
        return str(int(self))

    def __format__(self, spec):
        return format(int(self), spec)

    # --- realisation ------------------------------------------------------
    def __index__(self):
        return cur().realise_int(self.e, what='__index__', lo=self.lo,
                                 hi=self.hi, cap=max(64, min(
                                     self.hi - self.lo + 1, 300)))

    __int__ = __index__

    def __hash__(self):
        return hash(self.__index__())

    def __bool__(self):
        if self.lo > 0 or self.hi < 0:
            return True
        return cur().decide(self.e != 0)

    def __float__(self):
        return float(self.__index__())

    # --- arithmetic -------------------------------------------------------
    def __add__(self, o):
        if not _isnum(o):
            return NotImplemented
        if type(o) is int and o == 0:
            return self
        lo, hi = _ival(o)
        return mkint(self.e + iexpr(o), self.lo + lo, self.hi + hi)

    __radd__ = __add__

    def __sub__(self, o):
        if not _isnum(o):
            return NotImplemented
        if type(o) is int and o == 0:
            return self
        lo, hi = _ival(o)
        return mkint(self.e - iexpr(o), self.lo - hi, self.hi - lo)

    def __rsub__(self, o):
        if not _isnum(o):
            return NotImplemented
        lo, hi = _ival(o)
        return mkint(iexpr(o) - self.e, lo - self.hi, hi - self.lo)

    def __neg__(self):
        return mkint(-self.e, -self.hi, -self.lo)

    def __pos__(self):
        return self

    def __abs__(self):
        if self.lo >= 0:
            return self
        if self.hi <= 0:
            return -self
        return mkint(z3.If(self.e < 0, -self.e, self.e), 0,
                     max(-self.lo, self.hi))

    def __invert__(self):
        return mkint(~self.e, -self.hi - 1, -self.lo - 1)

    def __mul__(self, o):
        if not _isnum(o):
            return NotImplemented
        lo, hi = _ival(o)
        c = [self.lo * lo, self.lo * hi, self.hi * lo, self.hi * hi]
        return mkint(self.e * iexpr(o), min(c), max(c))

    __rmul__ = __mul__

    def _bitop(self, o, f, kind):
        if not _isnum(o):
            return NotImplemented
        lo, hi = _ival(o)
        if kind == 'and':
            if lo >= 0 and self.lo >= 0:
                rlo, rhi = 0, min(hi, self.hi)
            elif lo >= 0:
                rlo, rhi = 0, hi
            elif self.lo >= 0:
                rlo, rhi = 0, self.hi
            else:
                rlo, rhi = MININT, MAXINT
        else:
            if lo >= 0 and self.lo >= 0:
                rlo, rhi = 0, (1 << max(_bits(hi), _bits(self.hi))) - 1
            else:
                rlo, rhi = MININT, MAXINT
        return mkint(f(self.e, iexpr(o)), rlo, rhi)

    def __and__(self, o):
        return self._bitop(o, lambda a, b: a & b, 'and')

    __rand__ = __and__

    def __or__(self, o):
        return self._bitop(o, lambda a, b: a | b, 'or')

    __ror__ = __or__

    def __xor__(self, o):
        return self._bitop(o, lambda a, b: a ^ b, 'xor')

    __rxor__ = __xor__

    def __lshift__(self, o):
        return _shl(self, o)

    def __rlshift__(self, o):
        return _shl(o, self)

    def __rshift__(self, o):
        return _shr(self, o)

    def __rrshift__(self, o):
        return _shr(o, self)

    def __floordiv__(self, o):
        return _floordiv(self, o)

    def __rfloordiv__(self, o):
        return _floordiv(o, self)

    def __mod__(self, o):
        return _mod(self, o)

    def __rmod__(self, o):
        if isinstance(o, (str, bytes)):
            return NotImplemented
        return _mod(o, self)

    def __divmod__(self, o):
        return (_floordiv(self, o), _mod(self, o))

    def __truediv__(self, o):
        if not _isnum(o):
            return NotImplemented
        return SRatio(self, o)

    def __rtruediv__(self, o):
        if not _isnum(o):
            return NotImplemented
        return SRatio(o, self)

    def __pow__(self, o):
        if isinstance(o, int) and 0 <= o <= 4:
            r = 1
            for _ in range(o):
                r = r * self
            return r
        raise Unsupported('pow with symbolic operand')

    def __rpow__(self, o):
        # c ** sym: realise the exponent (small by interval)
        if isinstance(o, int):
            if self.hi - self.lo <= 16 and self.lo >= 0:
                r = o ** self.lo
                for v in range(self.lo + 1, self.hi + 1):
                    r = Ite(self == v, o ** v, r)
                return r
        raise Unsupported('pow with symbolic exponent')

    # --- comparisons -----------------------------------------------------
    def _cmp(self, o, op):
        if not _isnum(o):
            return NotImplemented
        lo, hi = _ival(o)
        oe = iexpr(o)
        if op == 'lt':
            if self.hi < lo:
                return True
            if self.lo >= hi:
                return False
            return mkbool(self.e < oe)
        if op == 'le':
            if self.hi <= lo:
                return True
            if self.lo > hi:
                return False
            return mkbool(self.e <= oe)
        if op == 'gt':
            if self.lo > hi:
                return True
            if self.hi <= lo:
                return False
            return mkbool(self.e > oe)
        if op == 'ge':
            if self.lo >= hi:
                return True
            if self.hi < lo:
                return False
            return mkbool(self.e >= oe)
        raise AssertionError(op)

    def __lt__(self, o):
        return self._cmp(o, 'lt')

    def __le__(self, o):
        return self._cmp(o, 'le')

    def __gt__(self, o):
        return self._cmp(o, 'gt')

    def __ge__(self, o):
        return self._cmp(o, 'ge')

    def __eq__(self, o):
        if not _isnum(o):
            if isinstance(o, float):
                if o != int(o):
                    return False
                o = int(o)
            else:
                return False
        lo, hi = _ival(o)
        if hi < self.lo or lo > self.hi:
            return False
        return mkbool(self.e == iexpr(o))

    def __ne__(self, o):
        return Not(self.__eq__(o))


def _shl(a, k):
    if not (_isnum(a) and _isnum(k)):
        return NotImplemented
    klo, khi = _ival(k)
    if klo < 0:
        raise Unsupported('shift by possibly negative amount')
    if khi > W:
        raise EngineLimit('shift amount may exceed width')
    alo, ahi = _ival(a)
    c = [alo << klo, alo << khi, ahi << klo, ahi << khi]
    return mkint(iexpr(a) << iexpr(k), min(c), max(c))


def _shr(a, k):
    if not (_isnum(a) and _isnum(k)):
        return NotImplemented
    klo, khi = _ival(k)
    if klo < 0:
        raise Unsupported('shift by possibly negative amount')
    alo, ahi = _ival(a)
    c = [alo >> klo, alo >> min(khi, 64), ahi >> klo, ahi >> min(khi, 64)]
    ke = iexpr(k)
    if khi >= W:
        ke = z3.If(z3.UGE(ke, _bv(W)), _bv(W - 1), ke)
    return mkint(iexpr(a) >> ke, min(c), max(c))


def _check_div0(b):
    lo, hi = _ival(b)
    if lo <= 0 <= hi:
        if isinstance(b, int) or cur().decide(iexpr(b) == 0):
            raise ZeroDivisionError('integer division or modulo by zero')


def _floordiv(a, b):
    if not (_isnum(a) and _isnum(b)):
        return NotImplemented
    _check_div0(b)
    alo, ahi = _ival(a)
    blo, bhi = _ival(b)
    ae, be = iexpr(a), iexpr(b)
    if alo >= 0 and blo > 0:
        return mkint(z3.UDiv(ae, be), alo // bhi, ahi // blo)
    # general floor division
    q = ae / be   # bvsdiv, truncating
    r = z3.SRem(ae, be)
    adj = z3.And(r != 0, (r < 0) != (be < 0))
    e = z3.If(adj, q - 1, q)
    m = max(abs(alo), abs(ahi))
    return mkint(e, -m - 1, m + 1)


def _mod(a, b):
    if not (_isnum(a) and _isnum(b)):
        return NotImplemented
    _check_div0(b)
    alo, ahi = _ival(a)
    blo, bhi = _ival(b)
    ae, be = iexpr(a), iexpr(b)
    if alo >= 0 and blo > 0:
        return mkint(z3.URem(ae, be), 0, min(ahi, bhi - 1))
    e = z3.SRem(ae, be)
    e = z3.If(z3.And(e != 0, (e < 0) != (be < 0)), e + be, e)
    m = max(abs(blo), abs(bhi))
    return mkint(e, -m, m)


class SRatio:
    """Result of true division of symbolic ints; supports only int()."""
    __slots__ = ('a', 'b')

    def __init__(self, a, b):
        self.a = a
        self.b = b

    def floor_int(self):
        alo, _ = _ival(self.a)
        blo, _ = _ival(self.b)
        if alo >= 0 and blo > 0:
            # int(a/b) == a//b for 0 <= a < 2**31, 0 < b < 2**31: side lemma
            # (IEEE double division of exactly representable ints, truncation)
            return _floordiv(self.a, self.b)
        raise Unsupported('int() of a true division with possibly negative '
                          'operands')

    def __int__(self):
        r = self.floor_int()
        return int(r)

    def __float__(self):
        raise Unsupported('float arithmetic on symbolic values')


class SRat:
    """Exact rational num/den (den a positive python int) standing for a
    float whose computation is exact (small integers, power-of-two or small
    denominators)."""
    __slots__ = ('num', 'den')

    def __init__(self, num, den=1):
        self.num = num
        self.den = den

    def _co(self, o):
        if isinstance(o, SRat):
            return o
        if isinstance(o, (int, SInt)):
            return SRat(o, 1)
        if isinstance(o, float) and o == int(o):
            return SRat(int(o), 1)
        raise Unsupported('float arithmetic on symbolic values')

    def __add__(self, o):
        o = self._co(o)
        return SRat(self.num * o.den + o.num * self.den, self.den * o.den)

    __radd__ = __add__

    def __truediv__(self, o):
        if isinstance(o, int) and o > 0:
            return SRat(self.num, self.den * o)
        raise Unsupported('float division by symbolic value')

    def __mul__(self, o):
        o = self._co(o)
        return SRat(self.num * o.num, self.den * o.den)

    def eq_frac(self, num, den):
        return self.num * den == num * self.den

    def __float__(self):
        raise Unsupported('float() of symbolic rational')


def is_sym(x):
    return isinstance(x, (SInt, SBool))


def fresh_int(base, lo, hi):
    p = cur()
    v = z3.BitVec(p.fresh_name(base), W)
    if lo > MININT:
        p.assume(v >= lo)
    if hi < MAXINT:
        p.assume(v <= hi)
    return mkint(v, lo, hi)
