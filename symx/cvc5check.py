"""Cross-check of closing queries with cvc5 (thorough tier, sampled)."""
import z3


def check(assertions, timeout_ms=20000):
    """'sat' / 'unsat' / 'unknown' for the conjunction of z3 assertions,
    decided by cvc5 on the SMT-LIB2 text z3 exports."""
    import cvc5
    s = z3.Solver()
    s.add(*assertions)
    smt2 = s.to_smt2()
    tm = cvc5.TermManager()
    slv = cvc5.Solver(tm)
    slv.setOption('tlimit-per', str(timeout_ms))
    slv.setLogic('ALL')
    parser = cvc5.InputParser(slv)
    parser.setStringInput(cvc5.InputLanguage.SMT_LIB_2_6, smt2, 'query')
    sm = parser.getSymbolManager()
    result = 'unknown'
    while True:
        cmd = parser.nextCommand()
        if cmd.isNull():
            break
        name = cmd.getCommandName()
        if name == 'set-logic':
            continue
        out = cmd.invoke(slv, sm)
        if name == 'check-sat':
            result = out.strip()
    return result
