"""Command-line driver: ./check <ID> --tier quick|thorough | --replay FILE"""
import argparse
import hashlib
import importlib
import inspect
import json
import os
import subprocess
import sys
import time

VERIF = os.path.dirname(os.path.dirname(os.path.abspath(__file__)))
REPO = os.environ.get('SYMX_REPO', '/repo')

EXIT_OK, EXIT_VIOLATION, EXIT_INCONCLUSIVE = 0, 1, 3


def _native_replay(path):
    env = dict(os.environ)
    env['SYMX_NATIVE'] = '1'
    env['PYTHONPATH'] = VERIF + os.pathsep + REPO
    r = subprocess.run([sys.executable, '-m', 'symx.native', '--replay',
                        path], cwd=VERIF, env=env, capture_output=True,
                       text=True, timeout=600)
    return r.returncode, r.stdout + r.stderr


def _write_replay(prop, modname, hname, params, v, tag='cex'):
    d = os.path.join(VERIF, 'replays', prop)
    os.makedirs(d, exist_ok=True)
    rec = {'property': prop, 'module': modname, 'harness': hname,
           'params': params, 'inputs': v['inputs'], 'check': v['check'],
           'info': v.get('info'),
           'replay_cmd': './check %s --replay {path}' % prop}
    blob = json.dumps(rec, sort_keys=True)
    hname_ = hashlib.sha1(blob.encode()).hexdigest()[:12]
    p = os.path.join(d, '%s-%s.json' % (tag, hname_))
    with open(p, 'w') as fh:
        fh.write(blob)
    return p


def main(argv=None):
    ap = argparse.ArgumentParser()
    ap.add_argument('prop')
    ap.add_argument('--tier', default=os.environ.get('VERIF_TIER', 'quick'))
    ap.add_argument('--replay')
    ap.add_argument('--only', help='run only the named harness')
    ap.add_argument('--nproc', type=int,
                    default=int(os.environ.get('SYMX_NPROC', '16')))
    ap.add_argument('--no-evidence', action='store_true')
    ap.add_argument('-v', action='store_true')
    a = ap.parse_args(argv)
    prop = a.prop
    if a.replay:
        rc, out = _native_replay(a.replay)
        sys.stdout.write(out)
        return rc
    if os.environ.get('PYTHONHASHSEED') != '0':
        os.environ['PYTHONHASHSEED'] = '0'
        os.execv(sys.executable, [sys.executable, '-m', 'symx.driver'] +
                 (argv if argv is not None else sys.argv[1:]))
    seed = int(os.environ.get('VERIF_SEED', '0') or 0)
    tier = a.tier if a.tier in ('quick', 'thorough') else 'quick'

    if tier == 'thorough' and 'SYMX_QUERY_TIMEOUT_MS' not in os.environ:
        # (z3's limit is wall-clock time: leave room for a loaded machine)
        os.environ['SYMX_QUERY_TIMEOUT_MS'] = '120000'
    if tier == 'thorough' and 'SYMX_CVC5' not in os.environ:
        os.environ['SYMX_CVC5'] = '1'
    if os.environ.get('SYMX_CVC5') == '0':
        del os.environ['SYMX_CVC5']
    from . import transform, explore, core
    sys.path.insert(0, VERIF)
    transform.install({'pico8': REPO, 'props': VERIF, 'ref': VERIF})
    t0 = time.time()
    modname = 'props.' + prop
    try:
        mod = importlib.import_module(modname)
    except Exception as e:
        import traceback
        traceback.print_exc()
        print('HARNESS-ERROR property=%s cannot import harness/impl: %r' %
              (prop, e))
        return EXIT_INCONCLUSIVE

    pres = list(getattr(mod, 'PRECHECKS', []))
    if tier == 'thorough':
        pres += list(getattr(mod, 'PRECHECKS_THOROUGH', []))
    for pre in pres:
        env = dict(os.environ)
        env['SYMX_NATIVE'] = '1'
        env['PYTHONPATH'] = VERIF + os.pathsep + REPO
        r = subprocess.run([sys.executable, '-m', pre], cwd=VERIF, env=env,
                           capture_output=True, text=True, timeout=600)
        if a.v:
            print('[%s] precheck %s: %s' % (prop, pre,
                                            r.stdout.strip()[-200:]))
        if r.returncode != 0:
            print('INCONCLUSIVE property=%s precheck %s failed: %s' % (
                prop, pre, (r.stdout + r.stderr)[-600:]))
            return EXIT_INCONCLUSIVE
    reached_by_h = {}
    runs = []
    total = {'states': 0, 'transitions': 0, 'validated': 0, 'queries': 0,
             'closing': 0, 'solver_s': 0.0, 'realisations': 0,
             'infeasible': 0}
    problems = []
    violations = []
    known_seen = {}
    samples = []
    bounds = []
    for h in mod.HARNESSES:
        if a.only and h.name != a.only:
            continue
        plist = h.quick if tier == 'quick' else h.thorough
        for params in plist:
            budget = params.get('_budget', 240 if tier == 'quick' else 900)
            if os.environ.get('SYMX_BUDGET'):
                budget = float(os.environ['SYMX_BUDGET'])
            if a.v:
                print('[%s] %s %r ...' % (prop, h.name, params), flush=True)
            s = explore.explore(modname, h, params, prop, budget, a.nproc,
                                seed=seed)
            runs.append((h, params, s))
            total['states'] += s['leaves']
            total['transitions'] += s['decisions']
            total['validated'] += s['validated']
            total['queries'] += s['checks']
            total['closing'] += s['closing']
            total['solver_s'] += s['solver_s']
            total['realisations'] += s['realisations']
            total['infeasible'] += s['infeasible']
            total['cvc5_checked'] = total.get('cvc5_checked', 0) + s.get(
                'cvc5_checked', 0)
            total['cvc5_other'] = total.get('cvc5_other', 0) + s.get(
                'cvc5_other', 0)
            bounds.append({'harness': h.name, 'params': {
                k: v for k, v in params.items()}, 'leaves': s['leaves'],
                'complete': s['complete'], 'wall_s': round(s['wall'], 2),
                'checks_reached': s['reached'], 'tags': s['tags'],
                'max_depth': s['max_depth']})
            for smp in s['samples'][:2]:
                if len(samples) < 8:
                    samples.append({'harness': h.name, 'inputs': _trim(smp)})
            if a.v:
                print('    leaves=%d decisions=%d checks=%d solver=%.1fs '
                      'wall=%.1fs complete=%s reached=%r' % (
                          s['leaves'], s['decisions'], s['checks'],
                          s['solver_s'], s['wall'], s['complete'],
                          s['reached']), flush=True)
                for site, cnt in sorted(s.get('fork_sites', {}).items(),
                                        key=lambda kv: -kv[1])[:12]:
                    print('      fork x%d at %s' % (cnt, site))
            for kid, hits in s['known'].items():
                known_seen.setdefault(kid, (h, params, hits[0]))
            if s['violations']:
                violations.append((h, params, s['violations'][0]))
                continue      # an incomplete tree after a violation is fine
            if not s['complete']:
                problems.append('%s: exploration incomplete: %s' %
                                (h.name, '; '.join(s['limits'][:3])))
            if s['limits']:
                problems.append('%s: engine limit: %s' %
                                (h.name, s['limits'][0]))
            if s['errors']:
                problems.append('%s: harness exception: %s' %
                                (h.name, s['errors'][0]))
            if s['divergences']:
                problems.append('%s: model divergence: %s' %
                                (h.name, s['divergences'][0]))
            reached_by_h[h.name] = reached_by_h.get(h.name, 0) + sum(
                s['reached'].values())

    explore.drop_pool()
    for hname, cnt in reached_by_h.items():
        if cnt == 0 and not any(v[0].name == hname for v in violations):
            problems.append('%s: vacuous (no check reached)' % hname)
    # --- report -----------------------------------------------------------
    known_ids = explore.load_known(prop)
    rc = EXIT_OK
    nviol = 0
    for h, params, v in violations:
        p = _write_replay(prop, modname, h.name, params, v)
        code, out = _native_replay(p)
        if code == 1:
            nviol += 1
            print('VIOLATION property=%s replay=%s' % (prop, p))
            print('  harness=%s check=%s info=%s' % (h.name, v['check'],
                                                    v.get('info')))
            print('  inputs=%s' % json.dumps(_trim(v['inputs']))[:2000])
            rc = EXIT_VIOLATION
        else:
            problems.append('%s: counterexample for %s did not reproduce '
                            'natively (%s): %s' % (h.name, v['check'], p,
                                                   out.strip()[-400:]))
    for kid, (h, params, (cname, inputs)) in sorted(known_seen.items()):
        v = {'check': cname, 'inputs': inputs, 'info': kid}
        p = _write_replay(prop, modname, h.name, params, v, tag='known')
        code, out = _native_replay(p)
        if code == 1:
            print('KNOWN-FINDING: property=%s %s: %s' % (
                prop, kid, known_ids.get(kid, '')))
        else:
            problems.append('known finding %s no longer reproduces natively'
                            % kid)
        try:
            os.remove(p)
        except OSError:
            pass
    if problems and rc == EXIT_OK:
        rc = EXIT_INCONCLUSIVE
    for pr in problems:
        print('INCONCLUSIVE property=%s %s' % (prop, pr))

    wall = time.time() - t0
    if not a.no_evidence:
        _write_evidence(prop, tier, seed, mod, runs, total, samples, bounds,
                        nviol, problems, wall, known_seen, transform)
    if a.v or rc != EXIT_OK:
        print('[%s] tier=%s rc=%d states=%d transitions=%d validated=%d '
              'solver_s=%.1f wall=%.1fs' % (
                  prop, tier, rc, total['states'], total['transitions'],
                  total['validated'], total['solver_s'], wall))
    return rc


def _trim(x, n=24):
    if isinstance(x, dict):
        return {k: _trim(v, n) for k, v in list(x.items())[:40]}
    if isinstance(x, list) and len(x) > n:
        return x[:n] + ['... %d more' % (len(x) - n)]
    return x


def _write_evidence(prop, tier, seed, mod, runs, total, samples, bounds,
                    nviol, problems, wall, known_seen, transform):
    enc = []
    for name, (path, sha) in sorted(transform.ENCODED.items()):
        if name.startswith('pico8'):
            enc.append({'module': name, 'path': path, 'sha256': sha})
    cov = {
        'states': max(total['states'], 0),
        'transitions': total['transitions'],
        'traces_validated_against_impl': total['validated'],
        'samples': samples or [{'note': 'no leaf produced a sample'}],
        'exhaustive': bool(runs) and all(s['complete'] for _, _, s in runs)
        and not problems,
        'explanation': 'states = completed symbolic paths (path-condition '
                       'equivalence classes of inputs); transitions = '
                       'solver-decided branch decisions; every leaf witness '
                       'is re-run on the un-instrumented /repo code.',
        'functions_encoded': getattr(mod, 'ENCODED', []),
        'modules_instrumented': enc,
        'bounds': bounds,
        'outside_bounds': getattr(mod, 'OUTSIDE', []),
        'queries': total['queries'],
        'closing_queries': total['closing'],
        'solver_s': round(total['solver_s'], 2),
        'realisations': total['realisations'],
        'infeasible_paths_cut': total['infeasible'],
        'known_findings_demonstrated': sorted(known_seen.keys()),
        'cvc5_crosscheck': {
            'closing_queries_rechecked': total.get('cvc5_checked', 0),
            'agreed_unsat': total.get('cvc5_checked', 0) - total.get(
                'cvc5_other', 0),
            'cvc5_unknown_or_error': total.get('cvc5_other', 0),
            'note': 'sampled unsat closing queries re-decided by cvc5 on '
                    'the SMT-LIB2 text exported by z3 (thorough tier)'},
        'problems': problems,
        'solver': 'z3 ' + __import__('z3').get_version_string(),
    }
    ev = {'property_id': prop, 'tier': tier, 'seed': seed,
          'level': 'model_checking', 'coverage': cov,
          'assumptions': getattr(mod, 'ASSUMPTIONS', []),
          'wall_s': round(wall, 2), 'violations': nviol}
    d = os.path.join(VERIF, 'evidence')
    os.makedirs(d, exist_ok=True)
    with open(os.path.join(d, prop + '.json'), 'w') as fh:
        json.dump(ev, fh, indent=1, sort_keys=True)


def _guarded():
    # An internal error of the checker must never look like a verdict: exit
    # code 1 is reserved for replay-confirmed violations.
    try:
        return main()
    except SystemExit:
        raise
    except BaseException as e:
        import traceback
        traceback.print_exc()
        print('HARNESS-ERROR checker failed internally: %r' % (e,))
        return EXIT_INCONCLUSIVE


if __name__ == '__main__':
    sys.exit(_guarded())
