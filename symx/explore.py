"""Exploration engine: DFS by re-execution, worker pool, closing queries,
known-finding filtering, native witness validation, evidence."""
import concurrent.futures as cf
import hashlib
import importlib
import json
import multiprocessing as mp
import os
import subprocess
import sys
import time
import traceback

import z3

from . import modstate
from . import core, api, rt, transform
from .core import Path, PathAbort, EngineLimit, Infeasible

VERIF = os.path.dirname(os.path.dirname(os.path.abspath(__file__)))
REPO = os.environ.get('SYMX_REPO', '/repo')


# ---------------------------------------------------------------------------
# native replay worker (un-instrumented code, separate interpreter)
# ---------------------------------------------------------------------------

class NativeWorker:
    def __init__(self):
        self.proc = None

    def start(self):
        env = dict(os.environ)
        env['SYMX_NATIVE'] = '1'
        env['PYTHONPATH'] = VERIF + os.pathsep + REPO
        env['PYTHONHASHSEED'] = '0'
        self.proc = subprocess.Popen(
            [sys.executable, '-m', 'symx.native', '--serve'],
            stdin=subprocess.PIPE, stdout=subprocess.PIPE, cwd=VERIF,
            env=env, text=True)

    def run(self, module, hname, params, inputs, timeout=120):
        if self.proc is None or self.proc.poll() is not None:
            self.start()
        req = json.dumps({'module': module, 'harness': hname,
                          'params': params, 'inputs': inputs})
        try:
            self.proc.stdin.write(req + '\n')
            self.proc.stdin.flush()
            line = self.proc.stdout.readline()
        except BrokenPipeError:
            line = ''
        if not line:
            self.proc = None
            return {'error': 'native worker died'}
        return json.loads(line)

    def stop(self):
        if self.proc is not None:
            try:
                self.proc.stdin.close()
                self.proc.wait(timeout=5)
            except Exception:
                self.proc.kill()
            self.proc = None


_native = NativeWorker()
CVC5 = {'on': bool(os.environ.get('SYMX_CVC5')), 'seen': 0}


# ---------------------------------------------------------------------------
# per-path engine
# ---------------------------------------------------------------------------

class PathEngine:
    """Receives ctx.check() calls during one path."""

    def __init__(self, prop_id, known_ids):
        self.prop_id = prop_id
        self.known_ids = known_ids
        self.violations = []     # dicts
        self.known_hits = []     # (kf id, inputs)
        self.reached = {}
        self.closing = 0
        self.closing_s = 0.0
        self.cvc5_checked = 0
        self.cvc5_other = 0
        self.cvc5_disagree = []

    def check(self, ctx, name, cond, known, info):
        path = ctx.path
        self.reached[name] = self.reached.get(name, 0) + 1
        if cond is True:
            ctx.checks.append((name, True, None))
            return
        if isinstance(cond, core.SBool):
            neg = z3.Not(cond.e)
        elif isinstance(cond, core.SInt):
            neg = cond.e == 0
        else:
            neg = z3.BoolVal(not cond)
        t = time.time()
        self.closing += 1
        path.stats.closing += 1
        sat = path._check(neg)
        if not sat:
            self.closing_s += time.time() - t
            if CVC5['on']:
                CVC5['seen'] += 1
                if CVC5['seen'] <= 5 or CVC5['seen'] % 40 == 0:
                    from . import cvc5check
                    try:
                        r = cvc5check.check(list(path.pc) + [neg])
                    except Exception as e:      # parser / option problems
                        r = 'error: %r' % (e,)
                    self.cvc5_checked += 1
                    if r == 'sat':
                        self.cvc5_disagree.append(name)
                    elif r != 'unsat':
                        self.cvc5_other += 1
            ctx.checks.append((name, True, None))
            return
        model = path.last_model()
        listed = []
        if known:
            for kid, sig in known.items():
                if kid in self.known_ids:
                    listed.append((kid, core.bexpr(sig)))
        unlisted_model = model
        if listed:
            excl = z3.Not(z3.Or(*[s for _, s in listed]))
            if path._check(neg, excl):
                unlisted_model = path.last_model()
            else:
                unlisted_model = None
                for kid, s in listed:
                    if path._check(neg, s):
                        m = path.last_model()
                        self.known_hits.append(
                            (kid, name, api.inputs_from_model(path, m)))
        self.closing_s += time.time() - t
        if unlisted_model is not None:
            self.violations.append({
                'check': name,
                'info': info if isinstance(info, (str, int, type(None)))
                else repr(info),
                'inputs': api.inputs_from_model(path, unlisted_model)})
            ctx.checks.append((name, False, info))
        else:
            ctx.checks.append((name, 'known', info))


def load_known(prop_id):
    p = os.path.join(VERIF, 'known_findings.json')
    ids = {}
    if os.path.exists(p):
        with open(p) as fh:
            data = json.load(fh)
        for f in data.get('findings', []):
            if f.get('property') == prop_id:
                ids[f['id']] = f.get('what', '')
    return ids


def run_path(module, h, params, prefix, prop_id, known_ids, seed, validate):
    """Execute one path.  Returns (leaf dict, pending prefixes)."""
    path = Path(prefix, logic=h.logic, seed=seed)
    eng = PathEngine(prop_id, known_ids)
    ctx = api.Ctx(path, eng)
    core.set_cur(path)
    rt.clear_stubs()
    modstate.sync()
    t0 = time.time()
    status = 'ok'
    detail = None
    try:
        h.fn(ctx, dict(params))
    except Infeasible as e:
        status = 'infeasible'
        detail = str(e)
    except EngineLimit as e:
        status = 'limit'
        detail = '%s: %s' % (type(e).__name__, e)
    except PathAbort as e:
        status = 'limit'
        detail = repr(e)
    except RecursionError as e:
        status = 'limit'
        detail = 'RecursionError'
    except Exception as e:
        status = 'harness-exception'
        detail = ''.join(traceback.format_exception(type(e), e,
                                                    e.__traceback__)[-6:])
    finally:
        for c in reversed(ctx.cleanups):
            c()
    leaf = {'status': status, 'detail': detail,
            'decisions': len(path.decisions),
            'prefix': list(path.decisions),
            'violations': eng.violations, 'known': eng.known_hits,
            'reached': eng.reached, 'closing': eng.closing,
            'tags': ctx.tags, 'notes': list(set(path.notes)),
            'fork_sites': path.fork_sites,
            'cvc5': [eng.cvc5_checked, eng.cvc5_other,
                     list(eng.cvc5_disagree)]}
    inputs = None
    if status == 'ok' and validate:
        # witness: one model of the path condition, replayed natively
        try:
            model = path.get_model()
            inputs = api.inputs_from_model(path, model)
            souts = [[n, api.normal(v, model)] for n, v in ctx.outs]
            res = _native.run(module, h.name, params, inputs)
            if 'error' in res:
                leaf['status'] = 'divergence'
                leaf['detail'] = 'native replay error: %s' % res['error']
            else:
                if res['outs'] != souts:
                    leaf['status'] = 'divergence'
                    leaf['detail'] = ('symbolic/native outputs differ:\n'
                                      ' sym=%r\n nat=%r\n inputs=%r' % (
                                          souts, res['outs'], inputs))
                else:
                    leaf['validated'] = 1
        except Infeasible:
            leaf['status'] = 'infeasible'
        except EngineLimit as e:
            leaf['status'] = 'limit'
            leaf['detail'] = str(e)
    leaf['sample'] = inputs
    st = path.stats
    leaf['stats'] = {'checks': st.checks, 'solver_s': st.solver_s,
                     'forks': st.forks, 'decisions': st.decisions,
                     'realisations': st.realisations,
                     'wall': time.time() - t0}
    core.set_cur(None)
    rt.clear_stubs()
    return leaf, path.pending


def _task(args):
    """Worker: DFS from one prefix for up to `chunk` leaves / `tmax` secs."""
    (modname, hname, params, prefix, prop_id, known_ids, seed, validate,
     chunk, tmax) = args
    mod = importlib.import_module(modname)
    h = [x for x in mod.HARNESSES if x.name == hname][0]
    stack = [prefix]
    leaves = []
    t0 = time.time()
    while stack:
        if len(leaves) >= chunk or time.time() - t0 > tmax:
            break
        pre = stack.pop()
        leaf, pending = run_path(modname, h, params, pre, prop_id, known_ids,
                                 seed, validate)
        leaves.append(leaf)
        # DFS: deepest pending first
        stack.extend(pending)
        if leaf['violations']:
            break
    if os.environ.get('SYMX_COV'):
        from . import rt as _rt
        _rt.cov_flush()
    return leaves, stack


_POOL = {'ex': None, 'nproc': 0}


def get_pool(nproc):
    if _POOL['ex'] is None or _POOL['nproc'] != nproc:
        drop_pool()
        _POOL['ex'] = cf.ProcessPoolExecutor(
            max_workers=nproc, mp_context=mp.get_context('fork'))
        _POOL['nproc'] = nproc
    return _POOL['ex']


def drop_pool(kill=False):
    ex = _POOL['ex']
    if ex is None:
        return
    procs = list((getattr(ex, '_processes', None) or {}).values())
    ex.shutdown(wait=not kill, cancel_futures=True)
    if kill:
        for p in procs:
            try:
                p.terminate()
            except Exception:
                pass
    _POOL['ex'] = None


def explore(modname, h, params, prop_id, budget_s, nproc, seed=0,
            validate=True, log=None, stop_on_violation=True):
    """Explore all paths of harness h under params.  Returns summary dict.
    The worker pool is shared by successive calls (workers are forked after
    the harness module was imported)."""
    known_ids = load_known(prop_id)
    t0 = time.time()
    summary = {'leaves': 0, 'infeasible': 0, 'decisions': 0, 'forks': 0,
               'checks': 0, 'solver_s': 0.0, 'closing': 0, 'validated': 0,
               'realisations': 0, 'violations': [], 'known': {},
               'limits': [], 'errors': [], 'divergences': [], 'reached': {},
               'samples': [], 'tags': {}, 'complete': False, 'notes': set(),
               'max_depth': 0}
    queue = [[]]
    chunk = 1
    ex = get_pool(nproc)
    futs = set()
    stop = False
    while (queue or futs) and not stop:
        while queue and len(futs) < nproc * 2:
            pre = queue.pop()
            futs.add(ex.submit(_task, (
                modname, h.name, params, pre, prop_id, known_ids, seed,
                validate, chunk, 10.0)))
        done, futs = cf.wait(futs, timeout=1.0,
                             return_when=cf.FIRST_COMPLETED)
        for f in done:
            leaves, rest = f.result()
            queue.extend(rest)
            for leaf in leaves:
                _accumulate(summary, leaf)
                if leaf['violations'] and stop_on_violation:
                    stop = True
        if summary['leaves'] > 8:
            chunk = 8
        if summary['leaves'] > 200:
            chunk = 32
        if time.time() - t0 > budget_s:
            summary['limits'].append('wall budget %.0fs exhausted with '
                                     '%d prefixes open' %
                                     (budget_s, len(queue) + len(futs)))
            stop = True
    if stop:
        for f in futs:
            f.cancel()
        drop_pool(kill=True)
    else:
        summary['complete'] = True
    summary['wall'] = time.time() - t0
    summary['notes'] = sorted(summary['notes'])
    return summary


def _accumulate(s, leaf):
    st = leaf['stats']
    s['decisions'] += st['decisions']
    s['forks'] += st['forks']
    s['checks'] += st['checks']
    s['solver_s'] += st['solver_s']
    s['realisations'] += st['realisations']
    s['closing'] += leaf['closing']
    s['max_depth'] = max(s['max_depth'], leaf['decisions'])
    s['notes'].update(leaf.get('notes', ()))
    for k, v in leaf.get('fork_sites', {}).items():
        s.setdefault('fork_sites', {})
        s['fork_sites'][k] = s['fork_sites'].get(k, 0) + v
    c5 = leaf.get('cvc5') or [0, 0, []]
    s['cvc5_checked'] = s.get('cvc5_checked', 0) + c5[0]
    s['cvc5_other'] = s.get('cvc5_other', 0) + c5[1]
    if c5[2]:
        s['divergences'].append('cvc5 says sat where z3 said unsat: %r' %
                                (c5[2],))
    status = leaf['status']
    if status == 'infeasible':
        s['infeasible'] += 1
        return
    s['leaves'] += 1
    for k, v in leaf['reached'].items():
        s['reached'][k] = s['reached'].get(k, 0) + v
    for t in leaf['tags']:
        s['tags'][t] = s['tags'].get(t, 0) + 1
    if leaf.get('validated'):
        s['validated'] += 1
    if leaf.get('sample') is not None and len(s['samples']) < 5:
        s['samples'].append(leaf['sample'])
    if status == 'limit':
        s['limits'].append(leaf['detail'])
    elif status == 'harness-exception':
        s['errors'].append(leaf['detail'])
    elif status == 'divergence':
        s['divergences'].append(leaf['detail'])
    for v in leaf['violations']:
        s['violations'].append(v)
    for kid, name, inputs in leaf['known']:
        s['known'].setdefault(kid, []).append((name, inputs))
