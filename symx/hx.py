"""Helpers for harness code that must run in both modes."""
from . import core
from .core import And, Or, Not, Implies, Ite
from .seq import MSeq, SSeq, SByteArray


def concrete(v):
    """True for plain python values (symx code is not instrumented, so type()
    is the real one here)."""
    return type(v) in (int, bool, bytes, str, type(None))


def neq_pairs(got, exp):
    """[a == b ...] obligations, dropping pairs that are concretely equal."""
    out = []
    for a, b in zip(got, exp):
        if type(a) is int and type(b) is int:
            if a != b:
                out.append(False)
            continue
        out.append(a == b)
    return out or [True]


def snap(m):
    """Immutable snapshot of a byte region."""
    if isinstance(m, MSeq):
        return MSeq(m.n, m.f, mutable=False)
    if isinstance(m, SByteArray):
        return m.copy()
    return bytes(m)


def mutable_copy(m):
    """A separate, editable copy of a byte region."""
    if isinstance(m, MSeq):
        return MSeq(m.n, m.f, mutable=True)
    if isinstance(m, SByteArray):
        return m.copy()
    return bytearray(m)


def length(m):
    if isinstance(m, MSeq):
        return m.length()
    if isinstance(m, SByteArray):
        return m.length()
    return len(m)


def bare(cls, **attrs):
    """Instance of cls without running __init__, with attributes set."""
    o = cls.__new__(cls)
    for k, v in attrs.items():
        setattr(o, k, v)
    return o


def made(cls, _data, **kw):
    """Section object built by its real constructor (whatever __init__ sets
    up exists), then given the (symbolic) region as its data."""
    o = cls(data=b'', version=kw.pop('version', 8), **kw)
    o._data = _data
    return o


def rat_eq(v, num, den):
    """v (float natively, SRat symbolically) equals num/den exactly."""
    if isinstance(v, core.SRat):
        return v.eq_frac(num, den)
    from fractions import Fraction
    return Fraction(v) == Fraction(num, den)


def rat_pair(v):
    if isinstance(v, core.SRat):
        return [v.num, v.den]
    from fractions import Fraction
    f = Fraction(v)
    return None


class MemStream:
    """In-memory binary stream usable in both modes: write() collects
    chunks; readline()/read() scan the concatenation (symbolic elements are
    compared with 0x0a, forking)."""

    def __init__(self, data=None):
        self.items = list(data) if data is not None else []
        self.pos = 0
        self.writes = 0

    def write(self, b):
        self.writes += 1
        if isinstance(b, SSeq):
            self.items.extend(b.items)
        else:
            self.items.extend(bytes(b))
        return len(b)

    def seek(self, pos, whence=0):
        if whence == 1:
            pos += self.pos
        elif whence == 2:
            pos += len(self.items)
        self.pos = pos
        return pos

    def tell(self):
        return self.pos

    def getvalue(self):
        from . import seq as _seq
        return _seq.make(_seq.BYTES, self.items)

    def read(self, n=-1):
        from . import seq as _seq
        if n is None or n < 0:
            out = self.items[self.pos:]
        else:
            out = self.items[self.pos:self.pos + n]
        self.pos += len(out)
        return _seq.make(_seq.BYTES, out)

    def readline(self, size=-1):
        from . import seq as _seq
        out = []
        items = self.items
        n = len(items)
        while self.pos < n and (size is None or size < 0 or
                                len(out) < size):
            c = items[self.pos]
            out.append(c)
            self.pos += 1
            if c == 10:
                break
        return _seq.make(_seq.BYTES, out)

    def __iter__(self):
        while True:
            line = self.readline()
            if len(line) == 0:
                return
            yield line

    def __next__(self):
        line = self.readline()
        if len(line) == 0:
            raise StopIteration
        return line

    def readlines(self, hint=-1):
        return list(self)

    def writelines(self, lines):
        for line in lines:
            self.write(line)

    def readable(self):
        return True

    def writable(self):
        return True

    def seekable(self):
        return True

    def flush(self):
        pass

    def truncate(self, size=None):
        if size is None:
            size = self.pos
        del self.items[size:]
        return size

    def close(self):
        pass

    def __enter__(self):
        return self

    def __exit__(self, *a):
        return False


def narrow(x, v, lo, hi):
    """v with the interval [lo, hi]; the bound is added as an assumption (a
    no-op cut when it is already implied by the path condition)."""
    if isinstance(v, core.SInt):
        x.assume(And(v >= lo, v <= hi))
        return core.mkint(v.e, max(v.lo, lo), min(v.hi, hi))
    return v


def patch(x, owner, attr, repl):
    """Replace owner.attr by repl for the duration of the scenario: a call
    stub in symbolic mode (the instrumented code routes every call through
    the runtime), a monkeypatch restored afterwards in native mode."""
    real = getattr(owner, attr)
    if x.symbolic:
        from . import rt
        rt.stub(real, repl)
    else:
        setattr(owner, attr, repl)
        x.cleanups.append(lambda: setattr(owner, attr, real))
    return real


def set_attr(x, owner, attr, value):
    """Replace a data attribute (a module constant, ...) for the duration of
    the scenario, in both modes; restored afterwards."""
    real = getattr(owner, attr)
    setattr(owner, attr, value)
    x.cleanups.append(lambda: setattr(owner, attr, real))
    return real
