"""Helpers for harness code that must run in both modes."""
from . import core
from .core import And, Or, Not, Implies, Ite
from .seq import MSeq, SSeq, SByteArray


def snap(m):
    """Immutable snapshot of a byte region."""
    if isinstance(m, MSeq):
        return MSeq(m.n, m.f, mutable=False)
    if isinstance(m, SByteArray):
        return m.copy()
    return bytes(m)


def length(m):
    if isinstance(m, MSeq):
        return m.length()
    return len(m)


def bare(cls, **attrs):
    """Instance of cls without running __init__, with attributes set."""
    o = cls.__new__(cls)
    for k, v in attrs.items():
        setattr(o, k, v)
    return o
