"""Helpers for harness code that must run in both modes."""
from . import core
from .core import And, Or, Not, Implies, Ite
from .seq import MSeq, SSeq, SByteArray


def snap(m):
    """Immutable snapshot of a byte region."""
    if isinstance(m, MSeq):
        return MSeq(m.n, m.f, mutable=False)
    if isinstance(m, SByteArray):
        return m.copy()
    return bytes(m)


def length(m):
    if isinstance(m, MSeq):
        return m.length()
    return len(m)


def bare(cls, **attrs):
    """Instance of cls without running __init__, with attributes set."""
    o = cls.__new__(cls)
    for k, v in attrs.items():
        setattr(o, k, v)
    return o


def rat_eq(v, num, den):
    """v (float natively, SRat symbolically) equals num/den exactly."""
    if isinstance(v, core.SRat):
        return v.eq_frac(num, den)
    from fractions import Fraction
    return Fraction(v) == Fraction(num, den)


def rat_pair(v):
    if isinstance(v, core.SRat):
        return [v.num, v.den]
    from fractions import Fraction
    f = Fraction(v)
    return None
