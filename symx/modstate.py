"""Module-level state of the code under test.

A worker process runs many paths (and a native worker many replays) one
after the other.  Whatever the code under test keeps at module level - a
table it mutates, a cache dictionary, a class attribute shared by all
instances, a mutable default argument, an lru_cache - must not travel from
one path to the next, or paths stop being independent runs of the program.
sync() records the state of every pico8 module the first time it sees it
(right after import, before any harness code ran) and puts that state back
before each path.  Within one path the state lives as in a fresh process,
which is exactly what the native replay of that path sees."""
import sys
import types

_PREFIX = 'pico8'
_seen = {}          # module name -> list of (container, snapshot)
_caches = []        # objects with cache_clear()


def _record(out, obj, depth=0):
    t = type(obj)
    if t is dict:
        out.append((obj, dict(obj)))
    elif t is list:
        out.append((obj, list(obj)))
    elif t is set:
        out.append((obj, set(obj)))
    elif t is bytearray:
        out.append((obj, bytes(obj)))


def _functions_of(ns):
    for v in list(ns.values()):
        f = v
        if isinstance(f, (staticmethod, classmethod)):
            f = f.__func__
        if hasattr(f, 'cache_clear') and hasattr(f, '__wrapped__'):
            _caches.append(f)
            f = f.__wrapped__
        if isinstance(f, types.FunctionType):
            yield f


def _snapshot(mod):
    out = []
    name = mod.__name__
    for k, v in list(vars(mod).items()):
        if k.startswith('__') or k == '_RT_':
            continue
        _record(out, v)
        if isinstance(v, type) and getattr(v, '__module__', None) == name:
            for ck, cv in list(vars(v).items()):
                if not ck.startswith('__'):
                    _record(out, cv)
            for f in _functions_of(vars(v)):
                for d in (f.__defaults__ or ()):
                    _record(out, d)
                for d in (f.__kwdefaults__ or {}).values():
                    _record(out, d)
    for f in _functions_of(vars(mod)):
        if getattr(f, '__module__', None) == name:
            for d in (f.__defaults__ or ()):
                _record(out, d)
            for d in (f.__kwdefaults__ or {}).values():
                _record(out, d)
    return out


def sync():
    """Record modules seen for the first time, then restore all recorded
    state."""
    for name, mod in list(sys.modules.items()):
        if mod is None or not (name == _PREFIX or
                               name.startswith(_PREFIX + '.')):
            continue
        if name not in _seen:
            try:
                _seen[name] = _snapshot(mod)
            except Exception:
                _seen[name] = []
    for items in _seen.values():
        for obj, snap in items:
            t = type(obj)
            if t is dict:
                if obj != snap or list(obj) != list(snap):
                    obj.clear()
                    obj.update(snap)
            elif t is list:
                if obj != snap:
                    obj[:] = snap
            elif t is set:
                if obj != snap:
                    obj.clear()
                    obj.update(snap)
            elif t is bytearray:
                if bytes(obj) != snap:
                    obj[:] = snap
    for f in _caches:
        try:
            f.cache_clear()
        except Exception:
            pass
