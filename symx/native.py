"""Native (un-instrumented) execution of harness scenarios on concrete inputs.

  python -m symx.native --serve                 JSON lines on stdin/stdout
  python -m symx.native --replay FILE           re-run a stored counterexample
"""
import importlib
import json
import os
import sys
import traceback

from . import api, modstate


def run(module, harness, params, inputs):
    mod = importlib.import_module(module)
    h = [x for x in mod.HARNESSES if x.name == harness][0]
    x = api.NCtx(inputs)
    modstate.sync()
    try:
        h.fn(x, dict(params))
    except api.AssumptionViolated:
        return {'error': 'assumption violated natively'}
    except Exception as e:
        return {'error': 'native exception: ' + ''.join(
            traceback.format_exception(type(e), e, e.__traceback__)[-5:])}
    finally:
        for c in reversed(x.cleanups):
            try:
                c()
            except Exception:
                pass
    return {'outs': [[n, api.normal(v)] for n, v in x.outs],
            'checks': [[n, bool(v), i] for n, v, i in x.checks],
            'tags': x.tags}


def serve():
    out = sys.stdout
    sys.stdout = sys.stderr
    for line in sys.stdin:
        line = line.strip()
        if not line:
            continue
        req = json.loads(line)
        try:
            res = run(req['module'], req['harness'], req['params'],
                      req['inputs'])
        except BaseException as e:
            res = {'error': 'native worker exception: %r' % (e,)}
        out.write(json.dumps(res) + '\n')
        out.flush()


def replay(path):
    with open(path) as fh:
        rec = json.load(fh)
    res = run(rec['module'], rec['harness'], rec['params'], rec['inputs'])
    if 'error' in res:
        print('replay error:', res['error'])
        return 3
    failed = [c for c in res['checks'] if not c[1]]
    for c in failed:
        print('FAILED check %s: %s' % (c[0], c[2]))
    if failed:
        print('VIOLATION property=%s replay=%s' % (rec['property'], path))
        return 1
    print('replay: all checks hold (not reproduced)')
    return 0


if __name__ == '__main__':
    if '--serve' in sys.argv:
        serve()
    elif '--replay' in sys.argv:
        sys.exit(replay(sys.argv[sys.argv.index('--replay') + 1]))
