"""Runtime that instrumented code calls into (module global `_RT_`)."""
import builtins
import re as _re
import types

from . import core, seq
from .core import (SInt, SBool, SRatio, cur, And, Or, Not, Ite, Unsupported,
                   EngineLimit)
from .seq import SSeq, SBytes, SStr, SByteArray, MSeq, BYTES, BARR, STR

PROXY_TYPES = {SInt, SBool, SBytes, SStr, SByteArray, MSeq, SRatio,
               core.SRat}
_SEQ_PROXIES = (SSeq, MSeq)

_CFUNC_TYPES = (types.BuiltinFunctionType, types.MethodDescriptorType,
                types.WrapperDescriptorType, types.MethodWrapperType,
                types.ClassMethodDescriptorType)


def register_proxy_type(t):
    PROXY_TYPES.add(t)


def _active():
    return core._cur is not None


def anysym(a, k=None):
    for x in a:
        if type(x) in PROXY_TYPES:
            return True
    if k:
        for x in k.values():
            if type(x) in PROXY_TYPES:
                return True
    return False


def deepsym(x, depth=2):
    if type(x) in PROXY_TYPES:
        return True
    if depth and type(x) in (list, tuple):
        for y in x:
            if deepsym(y, depth - 1):
                return True
    return False


def realise(x):
    """Concrete native value of a proxy (forks over models)."""
    t = type(x)
    if t is SInt:
        return x.__index__()
    if t is SBool:
        return bool(x)
    if isinstance(x, SSeq):
        return seq.realise_seq(x)
    if t is SRatio:
        return int(x)
    if t in (list, tuple):
        return t(realise(y) for y in x)
    if t is MSeq:
        raise Unsupported('realisation of symbolic-length sequence')
    return x


def virtual_type(x):
    t = type(x)
    if t is SInt:
        return int
    if t is SBool:
        return bool
    if t is SBytes:
        return bytes
    if t is SStr:
        return str
    if t is SByteArray:
        return bytearray
    if t is MSeq:
        return bytearray
    vt = getattr(x, '_symx_virtual_type_', None)
    if vt is not None:
        return vt() if callable(vt) else vt
    return t


# ---------------------------------------------------------------------------
# environment stubs installed by harnesses: function object -> replacement
# ---------------------------------------------------------------------------
STUBS = {}


def stub(fn, repl):
    STUBS[fn] = repl


def clear_stubs():
    STUBS.clear()
    _OVL.clear()


# ---------------------------------------------------------------------------
# models of builtins
# ---------------------------------------------------------------------------

def _m_len(x):
    if type(x) is MSeq:
        return x.length()
    if type(x) is SByteArray and x._m is not None:
        return x._m.length()
    if type(x) is dict and _OVL:
        ov = _ovl(x)
        if ov:
            return len(x) + len(ov)
    return len(x)


def _byte_elems(it):
    out = []
    for v in it:
        if isinstance(v, SBool):
            v = core.to_sint(v)
        if isinstance(v, SInt):
            if v.lo < 0 or v.hi > 255:
                if Or(v < 0, v > 255):
                    raise ValueError('bytes must be in range(0, 256)')
                v = SInt(v.e, max(v.lo, 0), min(v.hi, 255))
        elif isinstance(v, int):
            if not 0 <= v <= 255:
                raise ValueError('bytes must be in range(0, 256)')
            v = int(v)
        else:
            raise TypeError("'%s' object cannot be interpreted as an integer"
                            % type(v).__name__)
        out.append(v)
    return out


def _m_bytes(*a, **k):
    if not a and not k:
        return b''
    x = a[0]
    enc = a[1] if len(a) > 1 else k.get('encoding')
    if enc is not None:
        if isinstance(x, (str, SStr)):
            if type(x) is str:
                return bytes(x, enc)
            return seq.encode(x, enc)
        raise TypeError('encoding without a string argument')
    tx = type(x)
    if tx is bytes:
        return x
    if tx in (SBytes,):
        return x
    if tx is SByteArray:
        return seq.make(BYTES, x.items)
    if tx is bytearray:
        return bytes(x)
    if tx is MSeq:
        return MSeq(x.n, x.f, mutable=False)
    if isinstance(x, (str, SStr)):
        raise TypeError('string argument without an encoding')
    if isinstance(x, (int, SInt)) and not isinstance(x, bool):
        return bytes(x.__index__())
    if hasattr(x, '__bytes__'):
        return bytes(x)
    return seq.make(BYTES, _byte_elems(x))


def _m_bytearray(*a, **k):
    if not a and not k:
        return SByteArray([])
    x = a[0]
    enc = a[1] if len(a) > 1 else k.get('encoding')
    if enc is not None:
        r = _m_bytes(*a, **k)
        return SByteArray(seq.elems_of(r))
    tx = type(x)
    if tx is SByteArray:
        return x.copy()
    if tx is MSeq:
        return MSeq(x.n, x.f)
    if isinstance(x, (int, SInt)) and not isinstance(x, bool):
        return SByteArray([0] * x.__index__())
    if isinstance(x, (str, SStr)):
        raise TypeError('string argument without an encoding')
    if isinstance(x, (bytes, bytearray, SBytes)):
        return SByteArray(seq.elems_of(x))
    return SByteArray(_byte_elems(x))


def _m_str(*a, **k):
    if not a and not k:
        return ''
    x = a[0]
    enc = a[1] if len(a) > 1 else k.get('encoding')
    errs = a[2] if len(a) > 2 else k.get('errors', 'strict')
    if enc is not None:
        if isinstance(x, (bytes, bytearray)) :
            return str(x, enc, errs)
        return seq.decode(x, enc, errs)
    tx = type(x)
    if tx is SStr:
        return x
    if tx is SInt:
        return seq.int_to_str(x)
    if tx is SBool:
        return 'True' if x else 'False'
    if tx in (SBytes, SByteArray, MSeq, SRatio):
        return '<sym>'
    return str(x)


def _m_int(*a, **k):
    if not a:
        return 0
    x = a[0]
    base = a[1] if len(a) > 1 else k.get('base')
    tx = type(x)
    if base is None:
        if tx is SInt:
            return x
        if tx is SBool:
            return core.to_sint(x)
        if tx is SRatio:
            return x.floor_int()
        if isinstance(x, SSeq):
            return seq.parse_int(x, 10)
        return int(x)
    if isinstance(x, SSeq):
        return seq.parse_int(x, base)
    return int(x, base)


def _m_float(*a):
    if not a:
        return 0.0
    x = a[0]
    if type(x) in (SInt, SBool):
        return core.SRat(core.to_sint(x), 1)
    if type(x) in PROXY_TYPES:
        hook = FLOAT_HOOK[0]
        if hook is not None:
            return hook(x)
        raise Unsupported('float() of symbolic text')
    return float(x)


FLOAT_HOOK = [None]


def _m_format(v, spec=''):
    if type(v) is SInt:
        if spec == '02x':
            if v.lo >= 0 and v.hi <= 255:
                return seq.make(STR, seq.hex2(v))
        if spec in ('', 'd'):
            return seq.int_to_str(v)
        return format(v.__index__(), spec)
    if type(v) in PROXY_TYPES:
        return format(realise(v), spec)
    return format(v, spec)


def _m_minmax(which):
    native = min if which == 'min' else max

    def m(*a, **k):
        if k or len(a) < 2 or not anysym(a):
            return native(*a, **k)
        r = a[0]
        for x in a[1:]:
            if not isinstance(x, (int, SInt, SBool)) or not isinstance(
                    r, (int, SInt, SBool)):
                return native(*a)
            c = (x < r) if which == 'min' else (x > r)
            r = Ite(c, x, r)
        return r
    return m


def _m_isinstance(x, cls):
    if type(x) in PROXY_TYPES or hasattr(x, '_symx_isinstance_'):
        h = getattr(x, '_symx_isinstance_', None)
        if h is not None:
            return h(cls)
        vt = virtual_type(x)
        if isinstance(cls, tuple):
            return any(issubclass(vt, c) for c in cls)
        return issubclass(vt, cls)
    return isinstance(x, cls)


def _m_type(*a):
    if len(a) == 1:
        return virtual_type(a[0])
    return type(*a)


def _m_ord(c):
    if isinstance(c, SSeq):
        if len(c) != 1:
            raise TypeError('ord() expected a character')
        return c.items[0]
    return ord(c)


def _m_chr(i):
    if type(i) is SInt:
        return seq.make(STR, [i])
    return chr(i)


def _m_repr(x):
    if type(x) in PROXY_TYPES:
        return '<sym>'
    try:
        return repr(x)
    except core.PathAbort:
        raise
    except Exception:
        return '<unreprable>'


def _m_print(*a, **k):
    return None


def _m_hasattr(o, name):
    return hasattr(o, name)


def _m_list(*a):
    if a and type(a[0]) is MSeq:
        raise Unsupported('list() of symbolic-length sequence')
    return list(*a)


def _m_sum(it, start=0):
    r = start
    for x in it:
        r = r + x
    return r


def _m_abs(x):
    return abs(x)


def _m_bool(x=False):
    if type(x) is SBool:
        return x          # keep symbolic; truth test forks later
    if type(x) is SInt:
        return x != 0
    return bool(x)


def _m_range(*a):
    if not anysym(a):
        return range(*a)
    if len(a) == 2 or (len(a) == 3 and a[2] == 1):
        import z3
        start, stop = a[0], a[1]
        d = stop - start
        if isinstance(d, SInt):
            e = z3.simplify(d.e)
            if z3.is_bv_value(e):
                d = core._signed(e.as_long())
        if isinstance(d, int):
            return [start + i for i in range(max(d, 0))]
    return range(*[realise(x) for x in a])


CALL_MODELS = {
    range: _m_range,
    len: _m_len, bytes: _m_bytes, bytearray: _m_bytearray, str: _m_str,
    int: _m_int, float: _m_float, format: _m_format,
    min: _m_minmax('min'), max: _m_minmax('max'),
    isinstance: _m_isinstance, type: _m_type, ord: _m_ord, chr: _m_chr,
    repr: _m_repr, print: _m_print, list: _m_list, sum: _m_sum,
    bool: _m_bool,
}


def _fromhex(kind):
    def m(s):
        if type(s) is str:
            return (bytes if kind == BYTES else _m_bytearray)(
                bytes.fromhex(s))
        return seq.fromhex(kind, s)
    return m


CALL_MODELS[bytes.fromhex] = _fromhex(BYTES)
CALL_MODELS[bytearray.fromhex] = _fromhex(BARR)


# --- regex ------------------------------------------------------------------

def _re_model(fname):
    def m(pattern, string, *rest, **kw):
        if type(string) in PROXY_TYPES or type(pattern) in PROXY_TYPES or \
                (rest and type(rest[0]) in PROXY_TYPES):
            from . import symre
            return getattr(symre, 'mod_' + fname)(pattern, string, *rest,
                                                   **kw)
        return getattr(_re, fname)(pattern, string, *rest, **kw)
    return m


for _f in ('match', 'search', 'sub', 'fullmatch'):
    CALL_MODELS[getattr(_re, _f)] = _re_model(_f)


def _pat_method(p, name, a, k):
    from . import symre
    return getattr(symre, 'pat_' + name)(p, *a, **k)


# ---------------------------------------------------------------------------
# call / callm
# ---------------------------------------------------------------------------

_HARMLESS = {list, tuple, dict, set, frozenset, enumerate, zip, reversed,
             iter, next, sorted, getattr, setattr, hasattr, delattr, id,
             callable, any, all, map, filter, hash, divmod, slice, abs,
             issubclass, object, property, classmethod, staticmethod}
_HARMLESS_RECV = (list, tuple, dict, set, frozenset)


def _is_cfunc(f):
    if f in _HARMLESS:
        return False
    recv = getattr(f, '__self__', None)
    if recv is not None and type(recv) in _HARMLESS_RECV:
        return False
    return isinstance(f, _CFUNC_TYPES) or (
        isinstance(f, type) and f.__module__ == 'builtins')


def _lookup(f):
    try:
        h = STUBS.get(f)
        if h is not None:
            return h
        return CALL_MODELS.get(f)
    except TypeError:
        return None


def call(f, *a, **k):
    if core._cur is None and not STUBS:
        return f(*a, **k)
    h = _lookup(f)
    if h is not None:
        return h(*a, **k)
    if anysym(a, k) and _is_cfunc(f):
        a = [realise(x) for x in a]
        k = dict((n, realise(v)) for n, v in k.items())
    return f(*a, **k)


_LIFT = (bytes, bytearray, str)
_SEQ_METHODS_SYM_ARG = {
    'startswith', 'endswith', 'find', 'index', 'rfind', 'count', 'replace',
    'split', 'strip', 'rstrip', 'lstrip', 'join', '__contains__', '__eq__',
    '__add__'}


def lift(o):
    t = type(o)
    if t is bytes:
        return SBytes(list(o))
    if t is bytearray:
        return SByteArray(list(o))
    if t is str:
        return SStr([ord(c) for c in o])
    return o


def _fmt_placeholder(x):
    if type(x) in PROXY_TYPES:
        return '<sym>'
    return x


def callm(o, name, *a, **k):
    if core._cur is None and not STUBS:
        return getattr(o, name)(*a, **k)
    to = type(o)
    if to in PROXY_TYPES:
        return getattr(o, name)(*a, **k)
    if to in _LIFT:
        if name == 'join':
            parts = list(a[0])
            if any(type(p) in PROXY_TYPES for p in parts):
                return seq.join(o, parts)
            return getattr(o, name)(parts)
        if name == 'format' and to is str:
            if anysym(a, k):
                cur().notes.append('placeholder text in str.format')
                a = [_fmt_placeholder(x) for x in a]
                k = dict((n, _fmt_placeholder(v)) for n, v in k.items())
            return o.format(*a, **k)
        if anysym(a, k):
            if name in _SEQ_METHODS_SYM_ARG:
                return getattr(lift(o), name)(*a, **k)
    elif to is dict:
        ov = _ovl(o)
        if name == 'get' and a and (deepsym(a[0]) or ov):
            return dict_lookup(o, a[0], a[1] if len(a) > 1 else None, False)
        if name == 'setdefault' and a and (deepsym(a[0]) or ov):
            if contains(o, a[0]):
                return dict_lookup(o, a[0])
            dict_store(o, a[0], a[1] if len(a) > 1 else None)
            return a[1] if len(a) > 1 else None
        if name == '__setitem__' and len(a) == 2:
            return dict_store(o, a[0], a[1])
        if ov:
            if name == 'items':
                return list(o.items()) + list(ov)
            if name == 'keys':
                return list(o.keys()) + [kk for kk, _ in ov]
            if name == 'values':
                return list(o.values()) + [vv for _, vv in ov]
            if name == 'clear':
                del ov[:]
                return o.clear()
            if name in ('pop', 'popitem', 'update', 'copy', '__delitem__'):
                raise Unsupported('dict.%s on a dictionary that holds '
                                  'symbolic keys' % name)
    elif to is _re.Pattern:
        if name in ('match', 'search', 'sub', 'fullmatch') and anysym(a, k):
            return _pat_method(o, name, a, k)
    fn = getattr(o, name)
    h = _lookup(fn)
    if h is not None:
        return h(*a, **k)
    if anysym(a, k) and _is_cfunc(fn):
        a = [realise(x) for x in a]
        k = dict((n, realise(v)) for n, v in k.items())
    return fn(*a, **k)


# ---------------------------------------------------------------------------
# subscripts and containment
# ---------------------------------------------------------------------------

class SChoice:
    """values[idx] for a symbolic idx over heterogeneous python objects;
    attribute access maps over the candidates."""

    def __init__(self, idx, keys, values):
        self._idx = idx
        self._keys = keys
        self._values = values

    def __getattr__(self, name):
        if name.startswith('_'):
            raise AttributeError(name)
        return choose(self._idx, self._keys,
                      [getattr(v, name) for v in self._values])


NAMED = {}


def name_term(r):
    """Give a large term a fresh name (r' == term asserted once), so that the
    incremental solver internalises it once instead of with every query."""
    import z3
    p = cur()
    v = z3.BitVec(p.fresh_name('t'), core.W)
    p.assume(v == r.e)
    NAMED[v.get_id()] = r.e          # (for code that inspects the term)
    return SInt(v, r.lo, r.hi)


def choose(idx, keys, values):
    """The value values[j] where keys[j] == idx (idx symbolic, one key is
    known to match).  ints -> Ite chain; equal-kind sequences -> by length
    class; other objects -> SChoice."""
    if len(values) == 1:
        return values[0]
    v0 = values[0]
    if all(type(v) in (int, bool, SInt) for v in values):
        # affine shortcut
        if all(type(v) is int for v in values) and all(
                type(kk) is int for kk in keys):
            d = values[0] - keys[0]
            if all(v - kk == d for v, kk in zip(values, keys)):
                return idx + d if d else idx
            if all(v == values[0] for v in values):
                return values[0]
        r = values[-1]
        for kk, v in zip(reversed(keys[:-1]), reversed(values[:-1])):
            r = Ite(idx == kk, v, r)
        if len(values) > 16 and isinstance(r, SInt):
            r = name_term(r)
        return r
    kinds = set(seq.kind_of(v) for v in values)
    if len(kinds) == 1 and None not in kinds:
        kind = kinds.pop()
        lens = sorted(set(len(v) for v in values))
        for ln in lens[:-1]:
            grp = [kk for kk, v in zip(keys, values) if len(v) == ln]
            if Or(*[idx == kk for kk in grp]):
                keys2 = grp
                vals2 = [v for v in values if len(v) == ln]
                return _choose_seq(idx, keys2, vals2, kind, ln)
        ln = lens[-1]
        keys2 = [kk for kk, v in zip(keys, values) if len(v) == ln]
        vals2 = [v for v in values if len(v) == ln]
        return _choose_seq(idx, keys2, vals2, kind, ln)
    if all(v is v0 for v in values):
        return v0
    if all(v is None or type(v) in (int, bool, SInt) for v in values):
        # None-or-int: fork on None-ness
        nk = [kk for kk, v in zip(keys, values) if v is None]
        if Or(*[idx == kk for kk in nk]):
            return None
        ks = [kk for kk, v in zip(keys, values) if v is not None]
        vs = [v for v in values if v is not None]
        return choose(idx, ks, vs)
    return SChoice(idx, keys, values)


def _choose_seq(idx, keys, values, kind, ln):
    cols = []
    for pos in range(ln):
        col = [seq.elems_of(v)[pos] for v in values]
        cols.append(choose(idx, keys, col))
    return seq.make(kind if kind != BARR else BYTES, cols)


def seq_lookup(o, i):
    """o[i] for concrete list/tuple/bytes/str o and SInt i."""
    n = len(o)
    if i.lo < -n or i.hi >= n:
        if Or(i < -n, i >= n):
            raise IndexError('index out of range')
    if isinstance(i, SInt) and i.lo < 0:
        i = Ite(i < 0, i + n, i)
    if not isinstance(i, SInt):
        return o[i]
    lo, hi = max(i.lo, 0), min(i.hi, n - 1)
    keys = list(range(lo, hi + 1))
    if type(o) is str:
        vals = [ord(c) for c in o[lo:hi + 1]]
        return seq.make(STR, [choose(i, keys, vals)])
    vals = [o[kk] for kk in keys]
    return choose(i, keys, vals)


def _key_candidates(d, key):
    tk = type(key)
    if tk is SInt or tk is SBool:
        lo, hi = core._ival(key)
        return [kk for kk in d if type(kk) in (int, bool) and lo <= kk <= hi]
    if isinstance(key, SSeq):
        kind = key.kind
        want = bytes if kind in (BYTES, BARR) else str
        n = len(key)
        ivals = [core._ival(e) for e in key.items]
        out = []
        for kk in d:
            if type(kk) is want and len(kk) == n:
                ke = kk if want is bytes else [ord(c) for c in kk]
                if all(lo <= c <= hi for c, (lo, hi) in zip(ke, ivals)):
                    out.append(kk)
        return out
    if tk is tuple:
        # a tuple with symbolic parts: concrete tuple keys of the same shape
        out = []
        for kk in d:
            if type(kk) is tuple and len(kk) == len(key):
                ok = True
                for a, b in zip(key, kk):
                    if type(a) not in PROXY_TYPES and not (
                            type(a) is tuple and deepsym(a)):
                        if type(a) is not type(b) or a != b:
                            ok = False
                            break
                if ok:
                    out.append(kk)
        return out
    return None


# Real dictionaries of the code under test (caches, memo tables, name maps)
# cannot hold symbolic keys: hashing would have to fix the key's value.  Such
# entries live in an overlay next to the dictionary - an ordered list of
# (key, value) pairs compared with == (forking), distinct from each other and
# from the concrete keys by construction.  The overlay belongs to one path.
_OVL = {}


def clear_overlays():
    _OVL.clear()


def _ovl(d, create=False):
    e = _OVL.get(id(d))
    if e is not None and e[0] is d:
        return e[1]
    if create:
        pairs = []
        _OVL[id(d)] = (d, pairs)
        return pairs
    return None


def dict_store(d, key, value):
    """d[key] = value for a real dict and a key that may be symbolic."""
    pairs = _ovl(d)
    if pairs:
        for i, (kk, vv) in enumerate(pairs):
            if kk == key:
                pairs[i] = (kk, value)
                return
    if deepsym(key):
        cands = _key_candidates(d, key)
        if cands is None:
            d[realise(key)] = value
            return
        for kk in cands:
            if key == kk:
                d[kk] = value
                return
        _ovl(d, True).append((key, value))
        return
    d[key] = value


_MISSING = object()


def _ovl_find(d, key):
    pairs = _ovl(d)
    if pairs:
        for kk, vv in reversed(pairs):
            if kk == key:
                return vv
    return _MISSING


def dict_lookup(d, key, default=None, raise_missing=True):
    hit = _ovl_find(d, key)
    if hit is not _MISSING:
        return hit
    if not deepsym(key):
        if raise_missing:
            return d[key]
        return d.get(key, default)
    cands = _key_candidates(d, key)
    if cands is None:
        return d[realise(key)] if raise_missing else d.get(realise(key),
                                                           default)
    single = None
    if isinstance(key, SSeq) and len(key) == 1:
        single = key.items[0]
        lo, hi = core._ival(single)
        if len(cands) == hi - lo + 1:
            present = True          # every value of the element is a key
        else:
            present = Or(*[key == kk for kk in cands])
    else:
        present = Or(*[key == kk for kk in cands])
    if not present:
        if raise_missing:
            raise KeyError('<sym>')
        return default
    if single is not None and isinstance(single, SInt):
        ords = [kk[0] if type(kk) is bytes else ord(kk) for kk in cands]
        order = sorted(range(len(cands)), key=lambda t: ords[t])
        return choose(single, [ords[t] for t in order],
                      [d[cands[t]] for t in order])
    return choose_by_eq(key, cands, [d[kk] for kk in cands])


def choose_by_eq(key, cands, values):
    """Like choose() but keys compare with == yielding SBool (sequences)."""
    if isinstance(key, (SInt, SBool)):
        return choose(core.to_sint(key), cands, values)
    if len(values) == 1:
        return values[0]
    # group equal values to reduce forks
    if all(type(v) in (int, bool) for v in values):
        r = values[-1]
        for kk, v in zip(reversed(cands[:-1]), reversed(values[:-1])):
            r = Ite(key == kk, v, r)
        return r
    kinds = set(seq.kind_of(v) for v in values)
    if len(kinds) == 1 and None not in kinds:
        kind = kinds.pop()
        lens = sorted(set(len(v) for v in values))
        pick = None
        for ln in lens[:-1]:
            grp = [kk for kk, v in zip(cands, values) if len(v) == ln]
            if Or(*[key == kk for kk in grp]):
                pick = ln
                break
        if pick is None:
            pick = lens[-1]
        ks = [kk for kk, v in zip(cands, values) if len(v) == pick]
        vs = [v for v in values if len(v) == pick]
        cols = []
        for pos in range(pick):
            col = [seq.elems_of(v)[pos] for v in vs]
            r = col[-1]
            for kk, c in zip(reversed(ks[:-1]), reversed(col[:-1])):
                r = Ite(key == kk, c, r)
            cols.append(r)
        return seq.make(kind if kind != BARR else BYTES, cols)
    # arbitrary objects: fork over keys
    for kk, v in zip(cands[:-1], values[:-1]):
        if key == kk:
            return v
    return values[-1]


def setitem_v(v, o, i):
    """o[i] = v (value evaluated first, as in an assignment statement)."""
    if core._cur is not None and type(o) is dict and (
            deepsym(i) or (_OVL and _ovl(o))):
        dict_store(o, i, v)
        return
    o[i] = v


def getitem(o, i):
    if core._cur is None:
        return o[i]
    to = type(o)
    if to in PROXY_TYPES:
        return o[i]
    ti = type(i)
    if ti in PROXY_TYPES:
        if to in (list, tuple, bytes, str, bytearray, range):
            if ti is SBool:
                i = core.to_sint(i)
            if isinstance(i, SInt):
                return seq_lookup(o, i)
        elif to is dict:
            return dict_lookup(o, i)
        return o[realise(i)]
    if to is dict and ((_OVL and _ovl(o)) or (ti is tuple and deepsym(i))):
        return dict_lookup(o, i)
    if ti is slice and to in (list, tuple, bytes, str, bytearray):
        if (type(i.start) in PROXY_TYPES or type(i.stop) in PROXY_TYPES or
                type(i.step) in PROXY_TYPES):
            a, b, c = seq._slice_bounds(i, len(o))
            return o[a:b:c] if (c != 1 or True) else o[a:b]
    return o[i]


class SDict:
    """Dictionary with symbolic keys: an ordered list of (key, value) pairs
    whose keys are pairwise distinct by construction (the harness assumes
    it); lookups compare keys with == (SBool) instead of hashing."""

    def __init__(self, pairs=()):
        self.pairs = list(pairs)

    def _symx_contains_(self, key):
        return Or(*[k == key for k, _ in self.pairs])

    def __contains__(self, key):
        return bool(self._symx_contains_(key))

    def __getitem__(self, key):
        for k, v in self.pairs:
            if k == key:            # forks in insertion order
                return v
        raise KeyError('<sym>')

    def get(self, key, default=None):
        for k, v in self.pairs:
            if k == key:
                return v
        return default

    def __setitem__(self, key, value):
        for i, (k, v) in enumerate(self.pairs):
            if k == key:
                self.pairs[i] = (k, value)
                return
        self.pairs.append((key, value))

    def __len__(self):
        return len(self.pairs)

    def items(self):
        return list(self.pairs)

    def values(self):
        return [v for _, v in self.pairs]

    def keys(self):
        return [k for k, _ in self.pairs]


PROXY_TYPES.add(SDict)


def contains(c, x):
    if core._cur is None:
        return x in c
    tc = type(c)
    tx = type(x)
    if tc is SDict:
        return c._symx_contains_(x)
    if tc in PROXY_TYPES:
        if tc is MSeq:
            raise Unsupported('containment in symbolic-length sequence')
        return seq.contains(c, x)
    if tc is dict and _OVL:
        ov = _ovl(c)
        if ov:
            for kk, _ in ov:
                if kk == x:
                    return True
            if not deepsym(x):
                return x in c
    if tc is dict and tx is tuple and deepsym(x):
        for kk in (_key_candidates(c, x) or []):
            if x == kk:
                return True
        return False
    if tx in PROXY_TYPES:
        if tc in (bytes, bytearray, str):
            return seq.contains(c, x)
        if tc in (dict, set, frozenset) or isinstance(
                c, (type({}.keys()),)):
            cands = _key_candidates(c, x)
            if cands is not None:
                return Or(*[x == kk for kk in cands])
            return realise(x) in c
        if tc in (list, tuple):
            return Or(*[x == y for y in c])
        return realise(x) in c
    if tc in (list, tuple) and c and deepsym(c, 1):
        return Or(*[x == y for y in c])
    return x in c


def not_contains(c, x):
    return Not(contains(c, x))


def ite(t, fa, fb):
    if type(t) is SBool:
        a = fa()
        b = fb()
        if isinstance(a, (int, SInt)) and isinstance(b, (int, SInt)):
            return Ite(t, a, b)
        return a if t else b
    return fa() if t else fb()


def mod(a, b):
    ta = type(a)
    if ta in (str, bytes):
        args = b if type(b) is tuple else (b,)
        if anysym(args):
            return _percent_format(a, args)
        return a % b
    return a % b


def _percent_format(tmpl, args):
    """'%s'/'%d'/'%r' formatting with symbolic arguments."""
    is_b = type(tmpl) is bytes
    text = tmpl.decode('latin-1') if is_b else tmpl
    out = []
    ai = 0
    k = 0
    lit = []
    while k < len(text):
        ch = text[k]
        if ch != '%':
            lit.append(ord(ch))
            k += 1
            continue
        # %[0][width]spec
        j = k + 1
        zero = False
        if j < len(text) and text[j] == '0':
            zero = True
            j += 1
        width = 0
        while j < len(text) and text[j].isdigit():
            width = width * 10 + int(text[j])
            j += 1
        spec = text[j]
        k = j + 1
        if spec == '%':
            lit.append(37)
            continue
        arg = args[ai]
        ai += 1
        if spec in 'xX' or ((zero or width) and spec in 'sd'):
            if type(arg) is SInt and spec == 'x' and arg.lo >= 0 and \
                    arg.hi <= 255 and width in (0, 2) and (zero or not width):
                digits = seq.hex2(arg)
                if width == 0:
                    # no padding: drop a leading zero digit
                    if arg < 16:
                        digits = digits[1:]
                lit.extend(digits)
            else:
                fmt = '%' + ('0' if zero else '') + (str(width) if width
                                                     else '') + spec
                lit.extend(ord(c) for c in (fmt % (realise(arg),)))
            continue
        if spec in 'sd':
            if type(arg) is SInt:
                lit.extend(seq.elems_of(seq.int_to_str(arg)))
            elif isinstance(arg, SSeq):
                if arg.kind == STR or is_b:
                    lit.extend(arg.items)
                else:
                    lit.extend(ord(c) for c in '<sym>')
            elif type(arg) in PROXY_TYPES:
                lit.extend(ord(c) for c in '<sym>')
            else:
                lit.extend(ord(c) for c in (('%' + spec) % (arg,)))
        elif spec == 'r':
            lit.extend(ord(c) for c in _m_repr(arg))
        else:
            raise Unsupported('%%-format spec %r with symbolic args' % spec)
    return seq.make(BYTES if is_b else STR, lit)


def fstr(*parts):
    """f-string evaluation; symbolic integers are rendered exactly."""
    sym = False
    for p in parts:
        if type(p) is tuple and type(p[0]) in PROXY_TYPES:
            sym = True
    out = []
    for p in parts:
        if type(p) is not tuple:
            out.append(p if not sym else [ord(c) for c in p])
            continue
        v, conv, spec = p
        if type(spec) in PROXY_TYPES:
            spec = realise(spec)
        if type(v) in PROXY_TYPES and core._cur is not None:
            if type(v) is SInt and conv == -1 and spec in (None, '', 'd'):
                out.append(seq.elems_of(seq.int_to_str(v)))
            elif type(v) is SInt and conv == -1 and spec == '02x' and \
                    v.lo >= 0 and v.hi <= 255:
                out.append(seq.hex2(v))
            elif isinstance(v, SSeq) and v.kind == STR and conv == -1 and \
                    not spec:
                out.append(list(v.items))
            else:
                cur().notes.append('placeholder text in f-string')
                out.append([ord(c) for c in '<sym>'])
            continue
        if conv == 114:
            v = repr(v)
        elif conv == 115:
            v = str(v)
        elif conv == 97:
            v = ascii(v)
        t = format(v, spec or '')
        out.append(t if not sym else [ord(c) for c in t])
    if not sym:
        return ''.join(out)
    items = []
    for o in out:
        items.extend(o)
    return seq.make(STR, items)


# --- development aid: statement coverage of the instrumented modules --------
_COV = set()
_COV_NEW = []


def cov(filename, lineno):
    k = (filename, lineno)
    if k not in _COV:
        _COV.add(k)
        _COV_NEW.append(k)


def cov_flush():
    import os as _os
    d = _os.environ.get('SYMX_COV')
    if not d or not _COV_NEW:
        return
    with open(_os.path.join(d, '%d.txt' % _os.getpid()), 'a') as fh:
        for f, n in _COV_NEW:
            fh.write('%s:%d\n' % (f, n))
    del _COV_NEW[:]
