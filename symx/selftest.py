"""Engine self-test: differential tests of the models against native Python
on random concrete values (run by setup.sh and the thorough tiers)."""
import random
import re
import sys

from . import symre, seq, core


def regex_selftest(rounds=3000, seed=1):
    sys.path.insert(0, '/repo')
    rnd = random.Random(seed)
    from pico8.lua import lexer
    from pico8.game.formatter import p8
    pats = [p for p, _ in lexer._TOKEN_MATCHERS]
    pats += [p8.HEADER_VERSION_RE, p8.SECTION_DELIM_RE, p8.INCLUDE_LINE_RE,
             p8.TAB_LINE_RE]
    raw = [br'\d{1,3}', br'\[=*\[', br'\[(=*)\[', br'\]==\]', br'\]\]',
           br'\t', br'\r\n', br'\n\r', br'\r', br' +\n', br'^ *--',
           br'\n *--', br'\n *$', br'^ *$', br'\n\n+', br'[ \n]+$', br'\n +',
           br'  +', br'(a|ab)(c|bcd)(d*)', br'a*?b', br'(x+x+)+y',
           br'\bfoo\b', br'[^a-c]+', br'\s*#include\s+(\S+)(\.p8|\.lua)']
    pats += [re.compile(r) for r in raw]
    alpha = b'ab01.xe-+ \t\n\r=[]#:_\\"\'/*<>~!&|^%@$(){};,?\x80\xffiIfnd9EpP8'
    bad = 0
    n = 0
    for _ in range(rounds):
        p = rnd.choice(pats)
        ln = rnd.randint(0, 9)
        s = bytes(rnd.choice(alpha) for _ in range(ln))
        if rnd.random() < 0.3:
            s = rnd.choice([b'--', b'//', b'0x', b'0b1.', b'#include a.p8:3',
                            b'version 12\n', b'__lua__\n', b'::a::', b'1e-5',
                            b'...', b'..=', b'>>>', b'and', b'function']) + s
        for mode in ('match', 'search'):
            n += 1
            exp = getattr(p, mode)(s)
            got = symre._do(p, s, mode)
            if (exp is None) != (got is None):
                bad += 1
                print('REGEX MISMATCH', p.pattern, s, mode, exp, got)
                continue
            if exp is not None:
                if exp.span() != got.span() or exp.groups() != got.groups():
                    bad += 1
                    print('REGEX SPAN MISMATCH', p.pattern, s, mode,
                          exp.span(), got.span(), exp.groups(), got.groups())
        if rnd.random() < 0.5:
            repl = rnd.choice([b'', b'\n', b'  --', b'X'])
            n += 1
            exp = p.sub(repl, s)
            got = symre._sub(p, repl, s)
            if exp != got:
                bad += 1
                print('SUB MISMATCH', p.pattern, s, repl, exp, got)
    return n, bad


def main():
    n, bad = regex_selftest()
    print('symx selftest: regex %d comparisons, %d mismatches' % (n, bad))
    return 1 if bad else 0


if __name__ == '__main__':
    sys.exit(main())
