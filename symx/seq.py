"""Symbolic sequences: SBytes / SByteArray / SStr (concrete length, symbolic
elements), SMem-mode byte arrays (z3 array, symbolic index), MSeq (symbolic
length)."""
import z3
from . import core
from .core import (SInt, SBool, cur, mkint, mkbool, iexpr, And, Or, Not, Ite,
                   EngineLimit, Unsupported, W)

BYTES, BARR, STR = 'bytes', 'bytearray', 'str'


def _concrete_elems(items):
    for x in items:
        if type(x) is not int:
            return False
    return True


def elems_of(x):
    """Element list (ints / SInts) of a bytes-like or str-like value."""
    if isinstance(x, SSeq):
        return x.items
    if isinstance(x, (bytes, bytearray)):
        return list(x)
    if isinstance(x, str):
        return [ord(c) for c in x]
    if isinstance(x, memoryview):
        return list(bytes(x))
    raise TypeError('not a sequence value: %r' % type(x))


def kind_of(x):
    if isinstance(x, SSeq):
        return x.kind
    if isinstance(x, bytes):
        return BYTES
    if isinstance(x, bytearray):
        return BARR
    if isinstance(x, str):
        return STR
    return None


def is_byteslike(x):
    return kind_of(x) in (BYTES, BARR)


def make(kind, items):
    """Build a value of `kind`; a concrete native value when possible (except
    bytearray, which stays a proxy so that it can later take symbolic
    elements)."""
    if kind == BARR:
        return SByteArray(items)
    if _concrete_elems(items):
        if kind == BYTES:
            return bytes(items)
        return ''.join(map(chr, items))
    if kind == BYTES:
        return SBytes(items)
    return SStr(items)


def eq_elems(a, b):
    """SBool/bool: element lists equal (same concrete length required)."""
    if len(a) != len(b):
        return False
    conds = []
    for x, y in zip(a, b):
        if type(x) is int and type(y) is int:
            if x != y:
                return False
            continue
        r = (x == y)
        if r is False:
            return False
        if r is True:
            continue
        conds.append(r)
    return And(*conds)


def _norm_index(i, n):
    if isinstance(i, SInt):
        return i
    if isinstance(i, SBool):
        return int(bool(i))
    return i.__index__()


def _slice_bounds(sl, n):
    """Concrete (start, stop, step) for slice sl over length n; symbolic
    bounds are realised by forking (bounded by n)."""
    def conc(v):
        if isinstance(v, SInt):
            return cur().realise_int(v.e, cap=max(64, n + 2),
                                     what='slice bound', lo=v.lo, hi=v.hi)
        if isinstance(v, SBool):
            return int(bool(v))
        return v
    return slice(conc(sl.start), conc(sl.stop), conc(sl.step)).indices(n)


class SSeq:
    kind = None
    __slots__ = ('items',)

    def __init__(self, items):
        self.items = list(items)

    # ------------------------------------------------------------------
    def __len__(self):
        return len(self.items)

    def __iter__(self):
        if self.kind == STR:
            for x in self.items:
                yield make(STR, [x])
        else:
            for x in list(self.items):
                yield x

    def __repr__(self):
        return '<%s len=%d>' % (type(self).__name__, len(self.items))

    def __str__(self):
        if self.kind == STR:
            raise Unsupported('str() of symbolic text reached native code')
        return repr(self)

    def __bool__(self):
        return len(self.items) > 0

    def __hash__(self):
        return hash(realise_seq(self))

    def _wrap(self, items):
        return make(self.kind, items)

    def __getitem__(self, i):
        n = len(self.items)
        if isinstance(i, slice):
            a, b, c = _slice_bounds(i, n)
            return self._wrap(self.items[a:b:c])
        if isinstance(i, SInt):
            return self._sym_index(i)
        i = _norm_index(i, n)
        x = self.items[i]
        if self.kind == STR:
            return make(STR, [x])
        return x

    def _sym_index(self, i):
        n = len(self.items)
        # Python semantics: negative indices wrap, out of range raises.
        if i.lo < -n or i.hi >= n:
            if cur().decide(z3.Or(i.e < -n, i.e >= n)):
                raise IndexError('index out of range')
        if i.lo < 0:
            i = Ite(i < 0, i + n, i)
        r = None
        lo = max(i.lo if isinstance(i, SInt) else i, 0)
        hi = min(i.hi if isinstance(i, SInt) else i, n - 1)
        if hi - lo > 4096:
            raise EngineLimit('symbolic index over a python-list sequence '
                              'spanning %d elements' % (hi - lo))
        for k in range(hi, lo - 1, -1):
            v = self.items[k]
            r = v if r is None else Ite(i == k, v, r)
        if self.kind == STR:
            return make(STR, [r])
        return r

    # ------------------------------------------------------------------
    def __add__(self, o):
        k = kind_of(o)
        if k is None or (k == STR) != (self.kind == STR):
            return NotImplemented
        return self._wrap(self.items + elems_of(o))

    def __radd__(self, o):
        k = kind_of(o)
        if k is None or (k == STR) != (self.kind == STR):
            return NotImplemented
        return make(k if k != BARR else BARR, elems_of(o) + self.items)

    def __mul__(self, n):
        if isinstance(n, SInt):
            n = n.__index__()
        if not isinstance(n, int):
            return NotImplemented
        return self._wrap(self.items * n)

    __rmul__ = __mul__

    def __mod__(self, args):
        raise Unsupported('%-formatting with a symbolic template')

    def __eq__(self, o):
        k = kind_of(o)
        if k is None or (k == STR) != (self.kind == STR):
            return False
        return eq_elems(self.items, elems_of(o))

    def __ne__(self, o):
        return Not(self.__eq__(o))

    def __contains__(self, x):
        return bool(contains(self, x))

    def __lt__(self, o):
        raise Unsupported('ordering comparison of symbolic sequences')

    __gt__ = __le__ = __ge__ = __lt__

    # --- searching -----------------------------------------------------
    def startswith(self, p, start=0):
        if isinstance(p, tuple):
            return Or(*[self.startswith(q, start) for q in p])
        pe = elems_of(p)
        if start + len(pe) > len(self.items):
            return False
        return eq_elems(self.items[start:start + len(pe)], pe)

    def endswith(self, p):
        if isinstance(p, tuple):
            return Or(*[self.endswith(q) for q in p])
        pe = elems_of(p)
        if len(pe) > len(self.items):
            return False
        if not pe:
            return True
        return eq_elems(self.items[-len(pe):], pe)

    def find(self, sub, start=0, end=None):
        if isinstance(sub, (int, SInt)):
            se = [sub]
        else:
            se = elems_of(sub)
        n = len(self.items)
        end = n if end is None else min(end, n)
        if start < 0 or (isinstance(start, SInt)):
            raise Unsupported('find with symbolic/negative start')
        for k in range(start, end - len(se) + 1):
            if eq_elems(self.items[k:k + len(se)], se):   # forks in order
                return k
        return -1

    def index(self, sub, start=0, end=None):
        r = self.find(sub, start, end)
        if r < 0:
            raise ValueError('subsection not found')
        return r

    def rfind(self, sub, start=0, end=None):
        se = [sub] if isinstance(sub, (int, SInt)) else elems_of(sub)
        n = len(self.items)
        if isinstance(start, SInt) or isinstance(end, SInt):
            start, end, _ = _slice_bounds(slice(start, end), n)
        else:
            start, end, _ = slice(start, end).indices(n)
        for k in range(end - len(se), start - 1, -1):
            if eq_elems(self.items[k:k + len(se)], se):
                return k
        return -1

    def count(self, sub):
        se = [sub] if isinstance(sub, (int, SInt)) else elems_of(sub)
        if len(se) == 0:
            return len(self.items) + 1
        c = 0
        k = 0
        n = len(self.items)
        while k + len(se) <= n:
            if eq_elems(self.items[k:k + len(se)], se):
                c += 1
                k += len(se)
            else:
                k += 1
        return c

    def split(self, sep=None, maxsplit=-1):
        if sep is None:
            raise Unsupported('split() on whitespace with symbolic subject')
        se = elems_of(sep)
        out = []
        curp = 0
        k = 0
        n = len(self.items)
        while k + len(se) <= n and (maxsplit < 0 or len(out) < maxsplit):
            if eq_elems(self.items[k:k + len(se)], se):
                out.append(self._wrap_imm(self.items[curp:k]))
                k += len(se)
                curp = k
            else:
                k += 1
        out.append(self._wrap_imm(self.items[curp:]))
        return out

    def _wrap_imm(self, items):
        return make(self.kind, items)

    def splitlines(self, keepends=False):
        # str.splitlines knows more line boundaries than bytes.splitlines
        extra = (11, 12, 0x1c, 0x1d, 0x1e, 0x85, 0x2028, 0x2029) \
            if self.kind == STR else ()
        out = []
        cur_line = []
        items = self.items
        n = len(items)
        k = 0
        while k < n:
            c = items[k]
            is_extra = False
            for e in extra:
                if c == e:
                    is_extra = True
                    break
            if is_extra:
                out.append(self._wrap_imm(cur_line + ([c] if keepends
                                                      else [])))
                cur_line = []
            elif c == 13:
                end = [c]
                if k + 1 < n and items[k + 1] == 10:
                    end.append(items[k + 1])
                    k += 1
                out.append(self._wrap_imm(cur_line + (end if keepends
                                                      else [])))
                cur_line = []
            elif c == 10:
                out.append(self._wrap_imm(cur_line + ([c] if keepends
                                                      else [])))
                cur_line = []
            else:
                cur_line.append(c)
            k += 1
        if cur_line:
            out.append(self._wrap_imm(cur_line))
        return out

    def rjust(self, width, fill=None):
        if fill is None:
            fill = b' ' if self.kind != STR else ' '
        pad = max(0, width - len(self.items))
        return self._wrap_imm(elems_of(fill) * pad + self.items)

    def ljust(self, width, fill=None):
        if fill is None:
            fill = b' ' if self.kind != STR else ' '
        pad = max(0, width - len(self.items))
        return self._wrap_imm(self.items + elems_of(fill) * pad)

    def partition(self, sep):
        se = elems_of(sep)
        k = self.find(sep)
        if k < 0:
            return (self._wrap_imm(self.items), self._wrap_imm([]),
                    self._wrap_imm([]))
        return (self._wrap_imm(self.items[:k]),
                self._wrap_imm(self.items[k:k + len(se)]),
                self._wrap_imm(self.items[k + len(se):]))

    def translate(self, table):
        """str.translate / bytes.translate with a mapping (str) or a
        256-entry table (bytes).  A symbolic element forks only on the kind
        of its outcome (dropped / mapped / kept), not per table entry."""
        out = []
        if self.kind != STR:
            tb = elems_of(table)
            if len(tb) != 256:
                raise ValueError('translation table must be 256 characters '
                                 'long')
            from . import rt
            for x in self.items:
                out.append(rt.seq_lookup(list(tb), x) if type(x) is not int
                           else tb[x])
            return self._wrap_imm(out)
        if not isinstance(table, dict):
            raise Unsupported('translate() with a non-dict table')
        for x in self.items:
            if type(x) is int:
                if x in table:
                    v = table[x]
                    if v is None:
                        continue
                    out.extend([v] if isinstance(v, int) else elems_of(v))
                else:
                    out.append(x)
                continue
            keys = [k for k in table if isinstance(k, int) and
                    x.lo <= k <= x.hi]
            dropped = [k for k in keys if table[k] is None]
            single = [k for k in keys if table[k] is not None and (
                isinstance(table[k], int) or len(table[k]) == 1)]
            multi = [k for k in keys if k not in dropped and k not in single]
            if dropped and Or(*[x == k for k in dropped]):
                continue
            hit = False
            for k in multi:
                if x == k:
                    out.extend(elems_of(table[k]))
                    hit = True
                    break
            if hit:
                continue
            r = x
            for k in single:
                v = table[k]
                v = v if isinstance(v, int) else elems_of(v)[0]
                r = Ite(x == k, v, r)
            out.append(r)
        return self._wrap_imm(out)

    def replace(self, old, new, count=-1):
        oe, ne = elems_of(old), elems_of(new)
        if not oe:
            raise Unsupported('replace of empty pattern')
        out = []
        k = 0
        n = len(self.items)
        done = 0
        if len(oe) == 1 and len(ne) == 1 and count < 0:
            # element-wise, no fork
            o0, n0 = oe[0], ne[0]
            for x in self.items:
                out.append(Ite(x == o0, n0, x) if not (
                    type(x) is int and type(o0) is int) else
                    (n0 if x == o0 else x))
            return self._wrap_imm(out)
        while k < n:
            if (k + len(oe) <= n and (count < 0 or done < count) and
                    eq_elems(self.items[k:k + len(oe)], oe)):
                out.extend(ne)
                k += len(oe)
                done += 1
            else:
                out.append(self.items[k])
                k += 1
        return self._wrap_imm(out)

    _WS_BYTES = (9, 10, 11, 12, 13, 32)

    def _is_strip_char(self, x, chars):
        if chars is None:
            cs = self._WS_BYTES
            if self.kind == STR:
                cs = self._WS_BYTES + (28, 29, 30, 31, 0x85, 0xa0)
                if isinstance(x, SInt) and x.hi > 0xff:
                    raise Unsupported('strip() on symbolic non-latin text')
        else:
            cs = elems_of(chars)
        return Or(*[x == c for c in cs])

    def rstrip(self, chars=None):
        items = list(self.items)
        while items and self._is_strip_char(items[-1], chars):
            items.pop()
        return self._wrap_imm(items)

    def lstrip(self, chars=None):
        items = list(self.items)
        while items and self._is_strip_char(items[0], chars):
            items.pop(0)
        return self._wrap_imm(items)

    def strip(self, chars=None):
        items = list(self.items)
        while items and self._is_strip_char(items[-1], chars):
            items.pop()
        while items and self._is_strip_char(items[0], chars):
            items.pop(0)
        return self._wrap_imm(items)

    def lower(self):
        out = []
        for x in self.items:
            if type(x) is int:
                out.append(x + 32 if 65 <= x <= 90 else x)
            else:
                if self.kind == STR and x.hi > 0xff:
                    raise Unsupported('lower() on symbolic non-latin-1 text')
                if self.kind == STR and x.hi > 0xbf:
                    out.append(Ite(Or(And(x >= 65, x <= 90), And(
                        x >= 0xc0, x <= 0xde, x != 0xd7)), x + 32, x))
                else:
                    out.append(Ite(And(x >= 65, x <= 90), x + 32, x))
        return self._wrap_imm(out)

    def upper(self):
        out = []
        for x in self.items:
            if type(x) is int:
                out.append(x - 32 if 97 <= x <= 122 else x)
            else:
                if self.kind == STR and x.hi > 0x7f:
                    raise Unsupported('upper() on symbolic non-ascii text')
                out.append(Ite(And(x >= 97, x <= 122), x - 32, x))
        return self._wrap_imm(out)

    def join(self, parts):
        return join(self, parts)

    def decode(self, encoding='utf-8', errors='strict'):
        return decode(self, encoding, errors)

    def encode(self, encoding='utf-8', errors='strict'):
        return encode(self, encoding)

    def isascii(self):
        return And(*[x <= 127 for x in self.items])

    def _all_in(self, ranges):
        if not self.items:
            return False
        return And(*[Or(*[And(x >= a, x <= b) for a, b in ranges])
                     for x in self.items])

    def isalpha(self):
        return self._all_in([(65, 90), (97, 122)])

    def isalnum(self):
        return self._all_in([(48, 57), (65, 90), (97, 122)])

    def isspace(self):
        return self._all_in([(9, 13), (32, 32)])

    def isdigit(self):
        if not self.items:
            return False
        return And(*[And(x >= 48, x <= 57) for x in self.items])

    def hex(self):
        out = []
        for b in self.items:
            out.extend(hex2(b))
        return make(STR, out)


class SBytes(SSeq):
    kind = BYTES
    __slots__ = ()


class SStr(SSeq):
    kind = STR
    __slots__ = ()

    def format(self, *a, **k):
        raise Unsupported('format with symbolic template')


class SByteArray(SSeq):
    """Mutable byte array proxy; list mode (python list of elements) or array
    mode (z3 Array BV32->BV8 with concrete length) once a symbolic index is
    used."""
    kind = BARR
    __slots__ = ('arr', 'n', '_items', 'fn', '_m')

    def __init__(self, items=None, arr=None, n=None):
        self.arr = arr
        self.n = n
        self.fn = None      # function mode: z3 index term -> BV8 term
        self._m = None      # symbolic-length mode: an MSeq holds the bytes
        self._items = list(items) if items is not None else None

    @property
    def items(self):
        if self._m is not None:
            raise Unsupported('elements of a symbolic-length bytearray')
        it = self._items
        if it is None:
            return [self._sel(z3.BitVecVal(k, W)) for k in range(self.n)]
        return it

    @items.setter
    def items(self, v):
        self._items = v

    # --- mode handling --------------------------------------------------
    def _to_arr(self):
        if self.arr is None:
            items = self._items
            a = z3.K(z3.BitVecSort(W), z3.BitVecVal(0, 8))
            for k, v in enumerate(items):
                if type(v) is int:
                    if v != 0:
                        a = z3.Store(a, z3.BitVecVal(k, W),
                                     z3.BitVecVal(v, 8))
                else:
                    a = z3.Store(a, z3.BitVecVal(k, W),
                                 z3.Extract(7, 0, v.e))
            self.arr = a
            self.n = len(items)
            self._items = None

    def _to_list(self):
        if self._items is None:
            self._items = [self._sel(z3.BitVecVal(k, W))
                           for k in range(self.n)]
            self.arr = None
            self.fn = None

    def _to_fn(self):
        if self.fn is None:
            self._to_arr()
            arr = self.arr
            self.fn = lambda ie, arr=arr: z3.Select(arr, ie)

    def _sel(self, ie):
        if self.fn is not None:
            e = z3.simplify(self.fn(ie))
        else:
            e = z3.simplify(z3.Select(self.arr, ie))
        if z3.is_bv_value(e):
            return e.as_long()
        return SInt(z3.ZeroExt(W - 8, e), 0, 255)

    def _raw_items(self):
        return self._items

    def __len__(self):
        if self._m is not None:
            return len(self._m)
        it = self._raw_items()
        return self.n if it is None else len(it)

    def length(self):
        if self._m is not None:
            return self._m.length()
        return len(self)

    def copy(self):
        if self._m is not None:
            r = SByteArray([])
            r._m = MSeq(self._m.n, self._m.f)
            return r
        it = self._raw_items()
        if it is None:
            r = SByteArray(arr=self.arr, n=self.n)
            r.fn = self.fn
            return r
        return SByteArray(it)

    def _check_byte(self, v):
        if isinstance(v, SBool):
            v = core.to_sint(v)
        if isinstance(v, SInt):
            if v.lo < 0 or v.hi > 255:
                if cur().decide(z3.Or(v.e < 0, v.e > 255)):
                    raise ValueError('byte must be in range(0, 256)')
                return SInt(v.e, max(v.lo, 0), min(v.hi, 255))
            return v
        if not isinstance(v, int):
            raise TypeError("'%s' object cannot be interpreted as an integer"
                            % type(v).__name__)
        if not 0 <= v <= 255:
            raise ValueError('byte must be in range(0, 256)')
        return int(v)

    def __getitem__(self, i):
        if self._m is not None:
            return self._m[i]
        if isinstance(i, SInt):
            n = len(self)
            if i.lo < -n or i.hi >= n:
                if cur().decide(z3.Or(i.e < -n, i.e >= n)):
                    raise IndexError('bytearray index out of range')
            if i.lo < 0:
                i = Ite(i < 0, i + n, i)
            self._to_arr()
            return self._sel(iexpr(i))
        if self._raw_items() is None:
            n = self.n
            if isinstance(i, slice):
                a, b, c = _slice_bounds(i, n)
                return SByteArray([self._sel(z3.BitVecVal(k, W))
                                   for k in range(a, b, c)])
            i = _norm_index(i, n)
            if i < 0:
                i += n
            if not 0 <= i < n:
                raise IndexError('bytearray index out of range')
            return self._sel(z3.BitVecVal(i, W))
        return SSeq.__getitem__(self, i)

    def _store(self, ie, ve):
        if self.fn is not None:
            old = self.fn
            self.fn = lambda je, old=old: z3.If(je == ie, ve, old(je))
        else:
            self.arr = z3.Store(self.arr, ie, ve)

    def _set_slice_sym(self, i, v):
        """ba[a:b] = v with symbolic bounds or a symbolic-length value; only
        the replacement of a slice by as many bytes is modelled (the length
        of the array stays concrete)."""
        if i.step not in (None, 1):
            raise Unsupported('extended slice store with symbolic bounds')
        n = len(self)

        def clamp(x, default):
            if x is None:
                return default
            x = Ite(x < 0, x + n, x)
            x = Ite(x < 0, 0, x)
            return Ite(x > n, n, x)
        a = clamp(i.start, 0)
        b = clamp(i.stop, n)
        b = Ite(b < a, a, b)
        if isinstance(v, MSeq):
            m = v.n
            g = v.f
        else:
            ve = [self._check_byte(x) for x in elems_of_iter(v)]
            m = len(ve)
            g = _listfun(ve)
        if not (b - a == m):
            # the array changes its size by a symbolic amount: from here on
            # an MSeq (symbolic length) holds the bytes
            self._to_fn()
            fn = self.fn
            self._m = MSeq(n, lambda ie, fn=fn: z3.ZeroExt(W - 8, fn(ie)))
            self._m[i] = v
            self._items, self.arr, self.fn = [], None, None
            return
        self._to_fn()
        old = self.fn
        ae, be = iexpr(a), iexpr(b)
        self.fn = lambda ie, old=old: z3.If(
            z3.And(ie >= ae, ie < be), z3.Extract(7, 0, g(ie - ae)), old(ie))

    def __setitem__(self, i, v):
        if self._m is not None:
            self._m[i] = v
            return
        if isinstance(i, slice) and (isinstance(v, MSeq) or isinstance(
                i.start, SInt) or isinstance(i.stop, SInt)):
            return self._set_slice_sym(i, v)
        if isinstance(i, slice):
            self._to_list()
            items = self._raw_items()
            a, b, c = _slice_bounds(i, len(items))
            vals = [self._check_byte(x) for x in elems_of_iter(v)]
            if c != 1:
                items[a:b:c] = vals
            else:
                if b < a:
                    b = a
                items[a:b] = vals
            return
        v = self._check_byte(v)
        if isinstance(i, SInt):
            n = len(self)
            if i.lo < -n or i.hi >= n:
                if cur().decide(z3.Or(i.e < -n, i.e >= n)):
                    raise IndexError('bytearray index out of range')
            if i.lo < 0:
                i = Ite(i < 0, i + n, i)
            self._to_arr()
            ve = z3.BitVecVal(v, 8) if type(v) is int else z3.Extract(
                7, 0, v.e)
            self._store(iexpr(i), ve)
            return
        i = _norm_index(i, len(self))
        if self._raw_items() is None:
            n = self.n
            if i < 0:
                i += n
            if not 0 <= i < n:
                raise IndexError('bytearray index out of range')
            ve = z3.BitVecVal(v, 8) if type(v) is int else z3.Extract(
                7, 0, v.e)
            self._store(z3.BitVecVal(i, W), ve)
            return
        self._raw_items()[i] = v

    def __delitem__(self, i):
        self._to_list()
        items = self._raw_items()
        if isinstance(i, slice):
            a, b, c = _slice_bounds(i, len(items))
            del items[a:b:c]
        else:
            del items[_norm_index(i, len(items))]

    def append(self, v):
        self._to_list()
        self._raw_items().append(self._check_byte(v))

    def extend(self, vs):
        self._to_list()
        self._raw_items().extend(self._check_byte(x)
                                 for x in elems_of_iter(vs))

    def __iadd__(self, o):
        self.extend(o)
        return self

    def __iter__(self):
        if self._raw_items() is None:
            for k in range(self.n):
                yield self._sel(z3.BitVecVal(k, W))
        else:
            for x in list(self._raw_items()):
                yield x

    def _wrap(self, items):
        return SByteArray(items)

    def _wrap_imm(self, items):
        return SByteArray(items)

    def __hash__(self):
        raise TypeError("unhashable type: 'bytearray'")

    def clear(self):
        self._items = []
        self.arr = None
        self.fn = None

    def pop(self, i=-1):
        self._to_list()
        return self._raw_items().pop(i)

    def insert(self, i, v):
        self._to_list()
        self._raw_items().insert(i, self._check_byte(v))


def elems_of_iter(v):
    """Elements of any iterable of ints (bytes-like or list/generator)."""
    if isinstance(v, SSeq):
        if v.kind == STR:
            raise TypeError('cannot use str as bytes')
        return list(v.items)
    if isinstance(v, (bytes, bytearray)):
        return list(v)
    if isinstance(v, str):
        raise TypeError('cannot convert str to bytes')
    if isinstance(v, MSeq):
        raise Unsupported('symbolic-length sequence in concrete-length context')
    return list(v)


# ---------------------------------------------------------------------------
# containment, join, realisation
# ---------------------------------------------------------------------------

def contains(hay, x):
    """`x in hay` for sequence hay; returns bool/SBool (no fork)."""
    he = elems_of(hay)
    hk = kind_of(hay)
    if hk != STR and isinstance(x, (int, SInt, SBool)):
        return Or(*[h == x for h in he])
    xe = elems_of(x)
    if len(xe) == 0:
        return True
    return Or(*[eq_elems(he[k:k + len(xe)], xe)
                for k in range(0, len(he) - len(xe) + 1)])


def join(sep, parts):
    parts = list(parts)
    sk = kind_of(sep)
    se = elems_of(sep)
    if any(isinstance(p, MSeq) for p in parts) and sk != STR:
        res = MSeq(0, lambda ie: z3.BitVecVal(0, W))
        for k, p in enumerate(parts):
            if k and se:
                res[res.n:res.n] = se
            if not isinstance(p, MSeq) and kind_of(p) in (None, STR):
                raise TypeError('sequence item %d: expected a bytes-like '
                                'object, %s found' % (k, type(p).__name__))
            res[res.n:res.n] = p
        res.mutable = (sk == BARR)
        return res
    out = []
    for k, p in enumerate(parts):
        if k and se:
            out.extend(se)
        pk = kind_of(p)
        if pk is None or (pk == STR) != (sk == STR):
            raise TypeError('sequence item %d: expected a %s object, %s found'
                            % (k, 'str' if sk == STR else 'bytes-like',
                               type(p).__name__))
        out.extend(elems_of(p))
    return make(sk if sk != BARR else BARR, out)


def realise_seq(s, cap=64):
    """Concrete native value of a symbolic sequence, forking over models."""
    items = []
    p = cur()
    for x in s.items:
        if type(x) is int:
            items.append(x)
        else:
            items.append(p.realise_int(x.e, cap=cap, what='sequence element',
                                       lo=x.lo, hi=x.hi))
    if s.kind == STR:
        return ''.join(map(chr, items))
    if s.kind == BYTES:
        return bytes(items)
    return bytearray(items)


def has_sym(x):
    if isinstance(x, (SInt, SBool, SSeq, MSeq)):
        return True
    return False


# ---------------------------------------------------------------------------
# text codecs
# ---------------------------------------------------------------------------

_HEXCHAR = {}    # z3 term id -> (nibble SInt/int)


def hexchar(nib):
    """ASCII code of the lower-case hex digit of a nibble (0..15)."""
    if type(nib) is int:
        return ord('%x' % nib)
    e = z3.If(z3.ULT(nib.e, 10), nib.e + 48, nib.e + 87)
    r = SInt(e, 48, 102)
    _HEXCHAR[e.get_id()] = (e, nib)
    return r


def hex2(b):
    if type(b) is int:
        return [ord(c) for c in '%02x' % b]
    return [hexchar((b >> 4) & 15), hexchar(b & 15)]


def hexval(c, strict=True):
    """Value of hex digit char code c -> (valid SBool/bool, nibble)."""
    if type(c) is int:
        ch = chr(c)
        if ch in '0123456789abcdefABCDEF':
            return True, int(ch, 16)
        return False, 0
    hit = _HEXCHAR.get(c.e.get_id())
    if hit is not None and hit[0].eq(c.e):
        return True, hit[1]
    isd = And(c >= 48, c <= 57)
    isl = And(c >= 97, c <= 102)
    isu = And(c >= 65, c <= 70)
    val = Ite(isd, c - 48, Ite(isl, c - 87, Ite(isu, c - 55, 0)))
    if isinstance(val, SInt):
        val = SInt(val.e, 0, 15)
    return Or(isd, isl, isu), val


def decode(b, encoding, errors='strict'):
    enc = encoding.lower().replace('_', '-')
    items = elems_of(b)
    if errors not in ('strict', 'ignore', 'replace'):
        raise Unsupported('decode with errors=%r' % (errors,))
    if enc in ('ascii', 'us-ascii'):
        out = []
        for k, x in enumerate(items):
            if x > 127:
                if errors == 'strict':
                    raise UnicodeDecodeError('ascii', b'\xff', 0, 1,
                                             'ordinal not in range(128)')
                if errors == 'replace':
                    out.append(0xfffd)
            else:
                out.append(x)
        return make(STR, out)
    if enc in ('latin-1', 'latin1', 'iso-8859-1'):
        return make(STR, items)
    if enc in ('utf-8', 'utf8'):
        return _utf8_decode(items, errors)
    raise Unsupported('decode with encoding %r' % encoding)


def _utf8_decode(items, errors='strict'):
    """CPython's decoder: an ill-formed sequence is reported (strict) or
    skipped / replaced by U+FFFD (ignore / replace) as its maximal
    well-formed prefix - the lead byte and the continuation bytes that were
    acceptable -, decoding resumes at the offending byte."""
    out = []
    k = 0
    n = len(items)

    def bad(pos, length):
        if errors == 'strict':
            raise UnicodeDecodeError('utf-8', b'\xff', 0, 1,
                                     'invalid utf-8 (symbolic)')
        if errors == 'replace':
            out.append(0xfffd)
        return pos + length

    while k < n:
        x = items[k]
        if x < 0x80:
            out.append(x)
            k += 1
            continue
        if Or(x < 0xc2, x >= 0xf5):
            k = bad(k, 1)
            continue
        lo2, hi2 = 0x80, 0xbf
        if x < 0xe0:
            need = 1
            cp = x & 0x1f
        elif x < 0xf0:
            need = 2
            cp = x & 0x0f
            if x == 0xe0:
                lo2 = 0xa0
            elif x == 0xed:
                hi2 = 0x9f
        else:
            need = 3
            cp = x & 0x07
            if x == 0xf0:
                lo2 = 0x90
            elif x == 0xf4:
                hi2 = 0x8f
        j = 1
        ok = True
        while j <= need:
            if k + j >= n:
                ok = False
                break
            c = items[k + j]
            lo, hi = (lo2, hi2) if j == 1 else (0x80, 0xbf)
            if And(c >= lo, c <= hi):
                cp = (cp << 6) | (c & 0x3f)
                j += 1
            else:
                ok = False
                break
        if not ok:
            k = bad(k, j)
            continue
        out.append(cp)
        k += need + 1
    return make(STR, out)


def encode(s, encoding):
    enc = encoding.lower().replace('_', '-')
    items = elems_of(s)
    if enc in ('ascii', 'us-ascii'):
        for x in items:
            if x > 127:
                raise UnicodeEncodeError('ascii', 'x', 0, 1,
                                         'ordinal not in range(128)')
        return make(BYTES, items)
    if enc in ('latin-1', 'latin1'):
        for x in items:
            if x > 255:
                raise UnicodeEncodeError('latin-1', 'x', 0, 1,
                                         'ordinal not in range(256)')
        return make(BYTES, items)
    if enc in ('utf-8', 'utf8'):
        out = []
        for x in items:
            if x < 0x80:
                out.append(x)
            elif x < 0x800:
                out.append(0xc0 | (x >> 6))
                out.append(0x80 | (x & 0x3f))
            elif x < 0x10000:
                if And(x >= 0xd800, x <= 0xdfff):
                    raise UnicodeEncodeError('utf-8', 'x', 0, 1,
                                             'surrogates not allowed')
                out.append(0xe0 | (x >> 12))
                out.append(0x80 | ((x >> 6) & 0x3f))
                out.append(0x80 | (x & 0x3f))
            else:
                out.append(0xf0 | (x >> 18))
                out.append(0x80 | ((x >> 12) & 0x3f))
                out.append(0x80 | ((x >> 6) & 0x3f))
                out.append(0x80 | (x & 0x3f))
        return make(BYTES, out)
    raise Unsupported('encode with encoding %r' % encoding)


def fromhex(kind, s):
    """bytes.fromhex / bytearray.fromhex on (possibly symbolic) str."""
    items = elems_of(s)
    out = []
    k = 0
    n = len(items)
    while k < n:
        c = items[k]
        # whitespace is skipped between byte pairs
        isws = Or(*[c == w for w in (32, 9, 10, 11, 12, 13)]) if not (
            isinstance(c, SInt) and c.lo > 32) else False
        if isws:
            k += 1
            continue
        ok1, hi = hexval(c)
        if not ok1 or k + 1 >= n:
            raise ValueError('non-hexadecimal number found in fromhex() arg '
                             'at position %d' % k)
        ok2, lo = hexval(items[k + 1])
        if not ok2:
            raise ValueError('non-hexadecimal number found in fromhex() arg '
                             'at position %d' % (k + 1))
        out.append((hi << 4) | lo)
        k += 2
    return make(kind, out)


def parse_int(s, base=10):
    """int(text, base) for bytes/str with symbolic digits (bases 2,10,16)."""
    items = elems_of(s)
    # strip whitespace (concrete only) and sign
    while items and type(items[0]) is int and chr(items[0]).isspace():
        items = items[1:]
    while items and type(items[-1]) is int and chr(items[-1]).isspace():
        items = items[:-1]
    neg = False
    if items and type(items[0]) is int and items[0] in (43, 45):
        neg = items[0] == 45
        items = items[1:]
    if len(items) >= 2 and type(items[0]) is int and items[0] == 48 and \
            type(items[1]) is int:
        pc = chr(items[1]).lower()
        if (base == 16 and pc == 'x') or (base == 2 and pc == 'b') or \
                (base == 8 and pc == 'o'):
            items = items[2:]
    if not items:
        raise ValueError('invalid literal for int()')
    val = 0
    for c in items:
        if base == 16:
            ok, d = hexval(c)
        elif base == 10:
            ok, d = And(c >= 48, c <= 57), c - 48
        elif base == 2:
            ok, d = And(c >= 48, c <= 49), c - 48
        else:
            raise Unsupported('int() with base %r' % base)
        if not ok:
            raise ValueError('invalid literal for int() with base %d' % base)
        if isinstance(d, SInt):
            d = SInt(d.e, 0, base - 1)
        val = val * base + d
    return -val if neg else val


def int_to_str(v):
    """str(int) for SInt: forks on digit count (non-negative only)."""
    if type(v) is int:
        return str(v)
    if v < 0:
        raise Unsupported('str() of possibly negative symbolic int')
    nd = 1
    lim = 10
    while not (v < lim):
        nd += 1
        lim *= 10
    # Digits as fresh variables tied to v by a linear constraint: the
    # div/mod-by-constant rendering stalls bit-blasting, while
    # v == sum(d_k * 10^k) with 0 <= d_k <= 9 determines the digits uniquely.
    path = cur()
    ds = []
    total = None
    for k in range(nd):
        d = z3.BitVec(path.fresh_name('digit'), W)
        path.assume(z3.ULE(d, 9))
        ds.append(d)
        term = d * (10 ** k)
        total = term if total is None else total + term
    if nd > 1:
        path.assume(ds[-1] != 0)
    path.assume(v.e == total)
    out = [SInt(d + 48, 48, 57) for d in reversed(ds)]
    return make(STR, out)


# ---------------------------------------------------------------------------
# MSeq: symbolic-length sequence of bytes (functional)
# ---------------------------------------------------------------------------

class MSeq:
    """Byte sequence with symbolic length n (SInt/int) and element function
    f: z3 BV index term -> z3 BV32 term (value 0..255)."""

    def __init__(self, n, f, mutable=True):
        self.n = n
        self.f = f
        self.mutable = mutable

    def length(self):
        return self.n

    def __len__(self):
        if isinstance(self.n, int):
            return self.n
        return self.n.__index__()

    def _clamp(self, v, default):
        n = self.n
        if v is None:
            return default
        # python: negative -> += n, then clamp to [0, n]
        v = Ite(v < 0, v + n, v)
        v = Ite(v < 0, 0, v)
        v = Ite(v > n, n, v)
        return v

    def __getitem__(self, i):
        if isinstance(i, slice):
            if i.step not in (None, 1):
                raise Unsupported('MSeq extended slice')
            a = self._clamp(i.start, 0)
            b = self._clamp(i.stop, self.n)
            ln = Ite(b > a, b - a, 0)
            f = self.f
            ae = iexpr(a)
            return MSeq(ln, lambda ie: f(ie + ae), mutable=self.mutable)
        n = self.n
        if Or(i < -n if isinstance(n, int) else i < -n, i >= n):
            raise IndexError('index out of range')
        i = Ite(i < 0, i + n, i)
        return mk_byte(self.f(iexpr(i)))

    def __setitem__(self, i, v):
        if not self.mutable:
            raise TypeError("'bytes' object does not support item assignment")
        if not isinstance(i, slice):
            n = self.n
            if Or(i < -n, i >= n):
                raise IndexError('bytearray index out of range')
            i = Ite(i < 0, i + n, i)
            if isinstance(v, SInt) or isinstance(v, int):
                if Or(v < 0, v > 255):
                    raise ValueError('byte must be in range(0, 256)')
            ie0 = iexpr(i)
            ve = iexpr(v)
            old = self.f
            self.f = lambda ie, old=old: z3.If(ie == ie0, ve, old(ie))
            return
        if i.step not in (None, 1):
            raise Unsupported('MSeq extended slice store')
        a = self._clamp(i.start, 0)
        b = self._clamp(i.stop, self.n)
        b = Ite(b < a, a, b)
        if isinstance(v, MSeq):
            m, g = v.n, v.f
        else:
            ve = elems_of_iter(v)
            m = len(ve)
            g = _listfun(ve)
        old = self.f
        ae, be, me = iexpr(a), iexpr(b), iexpr(m)
        shift = be - ae - me     # old index = new index + (b - a - m)

        def newf(ie, old=old, g=g):
            return z3.If(ie < ae, old(ie),
                         z3.If(ie < ae + me, g(ie - ae), old(ie + shift)))
        self.f = newf
        self.n = self.n - (b - a) + m

    def at(self, ie):
        """Element term at z3 index term."""
        return self.f(ie)


def mk_byte(e):
    e = z3.simplify(e)
    if z3.is_bv_value(e):
        return e.as_long()
    return SInt(e, 0, 255)


def _listfun(elems):
    def g(ie):
        r = z3.BitVecVal(0, W)
        for k in range(len(elems) - 1, -1, -1):
            r = z3.If(ie == k, iexpr(elems[k]), r)
        return r
    return g
