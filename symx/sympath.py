"""Instrumented private copy of the interpreter's posixpath (pure-Python
normpath) so that os.path functions can run on symbolic strings; harnesses
install it with install_stubs()."""
import os
import posixpath
import re
import sys
import types

from . import transform, rt, core, seq

_mod = None


def module():
    global _mod
    if _mod is not None:
        return _mod
    path = posixpath.__file__
    with open(path, 'r', encoding='utf-8') as fh:
        src = fh.read()
    # use the pure-Python normpath (drop the C accelerator import)
    src = src.replace('from posix import _path_normpath',
                      'raise ImportError')
    src = src.replace('map(os.fspath, p)', '[os.fspath(q) for q in p]')
    m = types.ModuleType('symx_posixpath')
    m.__dict__['_RT_'] = rt
    m.__dict__['__file__'] = path
    code = transform.instrument_source(src, path)
    exec(code, m.__dict__)
    _mod = m
    return m


def _wrap(name):
    real = getattr(os.path, name)

    def f(*a, **k):
        # abspath always goes through the copy: it consults os.getcwd(),
        # which a harness may have stubbed
        if rt.anysym(a, k) or name == 'abspath':
            return getattr(module(), name)(*a, **k)
        return real(*a, **k)
    return real, f


def install_stubs(names=('join', 'normpath', 'abspath', 'dirname', 'basename',
                         'isabs', 'split', 'splitext', 'expanduser')):
    for n in names:
        real, f = _wrap(n)
        rt.stub(real, f)
    rt.stub(os.fspath, lambda p: p if isinstance(p, seq.SSeq)
            else os.fspath(p))
