"""Symbolic regular expressions: Python `re` backtracking semantics (ordered
alternatives, greedy/lazy repeats, first match wins) executed over a subject
of concrete length with symbolic elements.  Every character test yields an
SBool whose truth test forks, so each explored path carries one concrete
match shape (end position, group spans)."""
import re
try:
    import re._parser as sre_parse
    import re._constants as sre_c
except ImportError:                     # pragma: no cover
    import sre_parse
    import sre_constants as sre_c

from . import core, seq
from .core import SInt, SBool, And, Or, Not, Unsupported
from .seq import SSeq, BYTES, STR

_cache = {}


def _parse(pattern, flags):
    key = (pattern, flags)
    t = _cache.get(key)
    if t is None:
        t = sre_parse.parse(pattern, flags)
        _cache[key] = t
    return t


def _pat_info(p):
    """(parsed tree, is_bytes, flags, ngroups) of pattern p (compiled or
    raw)."""
    if isinstance(p, re.Pattern):
        pattern, flags = p.pattern, p.flags
    else:
        if isinstance(p, SSeq):
            p = seq.realise_seq(p)
        pattern, flags = p, 0
    is_bytes = isinstance(pattern, (bytes, bytearray))
    if not is_bytes and not (flags & re.ASCII):
        # str patterns: only supported with ASCII-only subjects (checked on
        # use of the category escapes)
        pass
    tree = _parse(pattern, flags & ~re.UNICODE if is_bytes else flags)
    return tree, is_bytes, flags, tree.state.groups - 1


class SymMatch:
    def __init__(self, subject, spans, pos0, endpos, names=None, pat=None):
        self._s = subject
        self._spans = spans         # list indexed by group number
        self.pos = pos0
        self.endpos = endpos
        self.string = subject
        self._names = dict(names or {})     # group name -> number
        self.re = pat

    def _g(self, g):
        if isinstance(g, str):
            if g not in self._names:
                raise IndexError('no such group')
            return self._names[g]
        if not 0 <= g < len(self._spans):
            raise IndexError('no such group')
        return g

    def _span(self, g):
        return self._spans[self._g(g)]

    def groupdict(self, default=None):
        return dict((n, self.group(n) if self._spans[k] is not None
                     else default) for n, k in self._names.items())

    @property
    def lastindex(self):
        last = None
        for k in range(1, len(self._spans)):
            if self._spans[k] is not None:
                last = k
        return last

    def group(self, *gs):
        if not gs:
            gs = (0,)
        out = []
        for g in gs:
            sp = self._spans[self._g(g)]
            out.append(None if sp is None else _slice(self._s, sp[0], sp[1]))
        return out[0] if len(out) == 1 else tuple(out)

    __getitem__ = group

    def groups(self, default=None):
        return tuple(default if sp is None else _slice(self._s, sp[0], sp[1])
                     for sp in self._spans[1:])

    def start(self, g=0):
        sp = self._spans[self._g(g)]
        return -1 if sp is None else sp[0]

    def end(self, g=0):
        sp = self._spans[self._g(g)]
        return -1 if sp is None else sp[1]

    def span(self, g=0):
        sp = self._spans[self._g(g)]
        return (-1, -1) if sp is None else sp

    def __bool__(self):
        return True


def _slice(s, a, b):
    if isinstance(s, SSeq):
        return seq.make(s.kind if s.kind != seq.BARR else BYTES, s.items[a:b])
    return s[a:b]


_VSETS = {}


def _value_set(c, cap=600):
    """All values the symbolic character can take under the path condition
    (the whole set, so the result does not depend on the order in which the
    solver produces them); None above cap.  Solver checks, not decisions."""
    import z3
    from .core import cur
    p = cur()
    key = (id(p), c.e.get_id(), len(p.pc) if hasattr(p, 'pc') else 0)
    if key in _VSETS:
        return _VSETS[key]
    found = []
    while True:
        extra = [c.e != v for v in found]
        if not p._check(*extra) if extra else not p._check():
            break
        mv = p.last_model().eval(c.e, model_completion=True).as_long()
        found.append(mv)
        if len(found) > cap:
            _VSETS[key] = None
            return None
    _VSETS[key] = set(found)
    if len(_VSETS) > 5000:
        _VSETS.clear()
    return set(found)


def _named():
    from . import rt
    return rt.NAMED


def _const_leaves(e, cap=2048):
    """Values of the constant leaves of an if-then-else tree over bit-vector
    constants (zero extensions allowed); None if the term has another
    shape."""
    import z3
    out = set()
    stack = [e]
    seen = 0
    while stack:
        t = stack.pop()
        seen += 1
        if seen > 4 * cap:
            return None
        if z3.is_bv_value(t):
            out.add(t.as_long())
            if len(out) > cap:
                return None
        elif z3.is_app_of(t, z3.Z3_OP_ITE):
            stack.append(t.arg(1))
            stack.append(t.arg(2))
        elif z3.is_app_of(t, z3.Z3_OP_ZERO_EXT):
            stack.append(t.arg(0))
        elif z3.is_const(t) and t.get_id() in _named():
            stack.append(_named()[t.get_id()])
        else:
            return None
    return out


class _Matcher:
    def __init__(self, tree, items, is_bytes, flags):
        self.tree = tree
        self.items = items
        self.n = len(items)
        self.is_bytes = is_bytes
        self.flags = flags
        self.dotall = bool(flags & re.DOTALL)
        self.multiline = bool(flags & re.MULTILINE)
        self.icase = bool(flags & re.IGNORECASE)
        if self.icase:
            raise Unsupported('IGNORECASE regex on symbolic subject')

    # -- character predicates (return bool / SBool) --------------------------
    def _word(self, c):
        u = self._unicode_pred(c, lambda ch: ch.isalnum() or ch == '_')
        if u is not None:
            return u
        return Or(And(c >= 48, c <= 57), And(c >= 65, c <= 90),
                  And(c >= 97, c <= 122), c == 95)

    def _unicode_pred(self, c, pred):
        """For a str subject (no re.ASCII) and a character that may be
        non-ASCII: the Unicode-aware class, decided per possible code point.
        The possible code points of a symbolic character are the constant
        leaves of its term (characters come out of table look-ups, i.e.
        if-then-else chains over constants).  None = ASCII rules apply."""
        if self.is_bytes or (self.flags & re.ASCII):
            return None
        if not isinstance(c, SInt):
            if c <= 127:
                return None
            return bool(pred(chr(c)))
        if c.hi <= 127:
            return None
        leaves = _const_leaves(c.e)
        if leaves is None:
            leaves = _value_set(c)
        if leaves is None:
            if c > 127:
                raise Unsupported('unicode category on symbolic non-ascii '
                                  'text')
            return None
        return Or(*[c == v for v in sorted(leaves)
                    if 0 <= v <= 0x10ffff and pred(chr(v))])

    def _ascii_only(self, c):
        # (digits and white space: the non-ASCII members of these Unicode
        # classes do not occur in P8SCII spellings; a symbolic character that
        # may be non-ASCII and is not a table look-up stays unsupported)
        if isinstance(c, SInt) and c.hi > 127 and not self.is_bytes and \
                not (self.flags & re.ASCII):
            leaves = _const_leaves(c.e)
            if leaves is None:
                leaves = _value_set(c)
            if leaves is not None and not any(
                    v > 127 and (chr(v).isdigit() or chr(v).isspace())
                    for v in leaves if 0 <= v <= 0x10ffff):
                return
        self._ascii_only_strict(c)

    def _ascii_only_strict(self, c):
        if not self.is_bytes and not (self.flags & re.ASCII):
            if isinstance(c, SInt):
                if c.hi > 127:
                    if c > 127:
                        raise Unsupported('unicode category on symbolic '
                                          'non-ascii text')
            elif c > 127:
                raise Unsupported('unicode category on non-ascii text')

    def _category(self, cat, c):
        C = sre_c
        if cat in (C.CATEGORY_DIGIT, getattr(C, 'CATEGORY_UNI_DIGIT', None)):
            self._ascii_only(c)
            return And(c >= 48, c <= 57)
        if cat in (C.CATEGORY_NOT_DIGIT,
                   getattr(C, 'CATEGORY_UNI_NOT_DIGIT', None)):
            self._ascii_only(c)
            return Not(And(c >= 48, c <= 57))
        if cat in (C.CATEGORY_SPACE, getattr(C, 'CATEGORY_UNI_SPACE', None)):
            self._ascii_only(c)
            return Or(And(c >= 9, c <= 13), c == 32)
        if cat in (C.CATEGORY_NOT_SPACE,
                   getattr(C, 'CATEGORY_UNI_NOT_SPACE', None)):
            self._ascii_only(c)
            return Not(Or(And(c >= 9, c <= 13), c == 32))
        if cat in (C.CATEGORY_WORD, getattr(C, 'CATEGORY_UNI_WORD', None)):
            return self._word(c)
        if cat in (C.CATEGORY_NOT_WORD,
                   getattr(C, 'CATEGORY_UNI_NOT_WORD', None)):
            return Not(self._word(c))
        raise Unsupported('regex category %r' % (cat,))

    def _in(self, av, c):
        neg = False
        conds = []
        for op, a in av:
            if op is sre_c.NEGATE:
                neg = True
            elif op is sre_c.LITERAL:
                conds.append(c == a)
            elif op is sre_c.RANGE:
                conds.append(And(c >= a[0], c <= a[1]))
            elif op is sre_c.CATEGORY:
                conds.append(self._category(a, c))
            else:
                raise Unsupported('regex class item %r' % (op,))
        r = Or(*conds)
        return Not(r) if neg else r

    def _is_word_at(self, pos):
        if pos < 0 or pos >= self.n:
            return False
        return self._word(self.items[pos])

    # -- the backtracking matcher -------------------------------------------
    def m(self, sq, idx, pos, st, k):
        """Match sq[idx:] at pos with group state st; k(pos, st) is the
        continuation; returns k's result or None."""
        if idx == len(sq):
            return k(pos, st)
        op, av = sq[idx]
        C = sre_c
        items = self.items
        n = self.n

        def nxt(p, s):
            return self.m(sq, idx + 1, p, s, k)

        if op is C.LITERAL:
            if pos < n and items[pos] == av:
                return nxt(pos + 1, st)
            return None
        if op is C.NOT_LITERAL:
            if pos < n and items[pos] != av:
                return nxt(pos + 1, st)
            return None
        if op is C.ANY:
            if pos < n and (self.dotall or items[pos] != 10):
                return nxt(pos + 1, st)
            return None
        if op is C.IN:
            if pos < n and self._in(av, items[pos]):
                return nxt(pos + 1, st)
            return None
        if op is C.BRANCH:
            for alt in av[1]:
                r = self.m(alt, 0, pos, st, nxt)
                if r is not None:
                    return r
            return None
        if op is C.SUBPATTERN:
            group, add_f, del_f, sub = av
            if add_f or del_f:
                raise Unsupported('inline regex flags')

            def after(p2, s2, pos=pos, group=group):
                if group is not None:
                    s2 = dict(s2)
                    s2[group] = (pos, p2)
                return nxt(p2, s2)
            return self.m(sub, 0, pos, st, after)
        if op in (C.MAX_REPEAT, C.MIN_REPEAT) or op is getattr(
                C, 'POSSESSIVE_REPEAT', object()):
            lo, hi, sub = av
            greedy = op is not C.MIN_REPEAT
            possessive = op is getattr(C, 'POSSESSIVE_REPEAT', object())
            if possessive:
                raise Unsupported('possessive repeat')
            if hi is C.MAXREPEAT:
                hi = n + 1

            def rep(count, p, s):
                def more():
                    if count >= hi:
                        return None

                    def again(p2, s2):
                        if p2 == p and count >= lo:
                            return None      # empty iteration: stop
                        return rep(count + 1, p2, s2)
                    return self.m(sub, 0, p, s, again)
                if greedy:
                    r = more()
                    if r is not None:
                        return r
                    if count >= lo:
                        return nxt(p, s)
                    return None
                if count >= lo:
                    r = nxt(p, s)
                    if r is not None:
                        return r
                return more()
            return rep(0, pos, st)
        if op is C.AT:
            ok = self._at(av, pos)
            if ok:
                return nxt(pos, st)
            return None
        if op is C.ASSERT or op is C.ASSERT_NOT:
            direction, sub = av
            if direction != 1:
                raise Unsupported('look-behind')
            r = self.m(sub, 0, pos, st, lambda p2, s2: (p2, s2))
            if op is C.ASSERT:
                if r is None:
                    return None
                return nxt(pos, r[1])
            if r is not None:
                return None
            return nxt(pos, st)
        if op is C.GROUPREF:
            sp = st.get(av)
            if sp is None:
                return None
            ln = sp[1] - sp[0]
            if pos + ln > n:
                return None
            if seq.eq_elems(items[sp[0]:sp[1]], items[pos:pos + ln]):
                return nxt(pos + ln, st)
            return None
        raise Unsupported('regex op %r' % (op,))

    def _at(self, code, pos):
        C = sre_c
        n = self.n
        items = self.items
        if code in (C.AT_BEGINNING_STRING,):
            return pos == 0
        if code is C.AT_BEGINNING:
            if pos == 0:
                return True
            if self.multiline:
                return items[pos - 1] == 10
            return False
        if code is C.AT_END:
            if pos == n:
                return True
            if self.multiline:
                return items[pos] == 10
            if pos == n - 1:
                return items[pos] == 10
            return False
        if code is C.AT_END_STRING:
            return pos == n
        if code in (C.AT_BOUNDARY, getattr(C, 'AT_UNI_BOUNDARY', None)):
            a = self._is_word_at(pos - 1)
            b = self._is_word_at(pos)
            return Or(And(a, Not(b)), And(Not(a), b))
        if code in (C.AT_NON_BOUNDARY,
                    getattr(C, 'AT_UNI_NON_BOUNDARY', None)):
            a = self._is_word_at(pos - 1)
            b = self._is_word_at(pos)
            return Not(Or(And(a, Not(b)), And(Not(a), b)))
        raise Unsupported('regex anchor %r' % (code,))

    def match_at(self, pos, ngroups, full=False, must_advance_from=None):
        def final(p, s):
            if full and p != self.n:
                return None
            if must_advance_from is not None and p == must_advance_from:
                return None
            return (p, s)
        r = self.m(list(self.tree), 0, pos, {}, final)
        if r is None:
            return None
        end, st = r
        spans = [(pos, end)] + [st.get(g) for g in range(1, ngroups + 1)]
        return spans


def _subject_items(s):
    if isinstance(s, SSeq):
        return s.items
    if isinstance(s, (bytes, bytearray)):
        return list(s)
    if isinstance(s, str):
        return [ord(c) for c in s]
    raise TypeError('expected string or bytes-like object')


def _do(p, s, mode, pos=0, endpos=None):
    tree, is_bytes, flags, ng = _pat_info(p)
    if is_bytes != (seq.kind_of(s) in (BYTES, seq.BARR)):
        raise TypeError('cannot use a %s pattern on a %s object' % (
            'bytes' if is_bytes else 'string',
            'string' if is_bytes else 'bytes-like'))
    items = _subject_items(s)
    if endpos is not None:
        items = items[:endpos]
    mt = _Matcher(tree, items, is_bytes, flags)
    if mode == 'match':
        sp = mt.match_at(pos, ng)
    elif mode == 'fullmatch':
        sp = mt.match_at(pos, ng, full=True)
    else:
        sp = None
        for st in range(pos, len(items) + 1):
            sp = mt.match_at(st, ng)
            if sp is not None:
                break
    if sp is None:
        return None
    return SymMatch(s, sp, pos, len(items),
                    names=getattr(p, 'groupindex', None), pat=p)


def _sub(p, repl, s, count=0):
    tree, is_bytes, flags, ng = _pat_info(p)
    if callable(repl):
        raise Unsupported('re.sub with a function on symbolic subject')
    rk = seq.kind_of(repl)
    ritems = seq.elems_of(repl)
    for c in ritems:
        if type(c) is int and c == 92:
            raise Unsupported('backslash in re.sub replacement template')
    items = _subject_items(s)
    n = len(items)
    mt = _Matcher(tree, items, is_bytes, flags)
    out = []
    i = 0
    start = 0
    must_advance = False
    done = 0
    while start <= n and (count == 0 or done < count):
        sp = None
        for st in range(start, n + 1):
            sp = mt.match_at(
                st, ng, must_advance_from=(st if (must_advance and
                                                  st == start) else None))
            if sp is not None:
                break
        if sp is None:
            break
        b, e = sp[0]
        out.extend(items[i:b])
        out.extend(ritems)
        i = e
        done += 1
        must_advance = (e == b)
        start = e
    out.extend(items[i:])
    kind = seq.kind_of(s)
    return seq.make(BYTES if kind in (BYTES, seq.BARR) else STR, out)


# module-level functions: re.match(pattern, string, flags=0)
def _with_flags(p, flags):
    if flags and not isinstance(p, re.Pattern):
        if isinstance(p, SSeq):
            p = seq.realise_seq(p)
        return re.compile(p, flags)
    return p


def mod_match(pattern, string, flags=0):
    return _do(_with_flags(pattern, flags), string, 'match')


def mod_fullmatch(pattern, string, flags=0):
    return _do(_with_flags(pattern, flags), string, 'fullmatch')


def mod_search(pattern, string, flags=0):
    return _do(_with_flags(pattern, flags), string, 'search')


def mod_sub(pattern, repl, string, count=0, flags=0):
    return _sub(_with_flags(pattern, flags), repl, string, count)


# compiled pattern methods: pat.match(string[, pos[, endpos]])
def pat_match(p, string, pos=0, endpos=None):
    return _do(p, string, 'match', pos, endpos)


def pat_fullmatch(p, string, pos=0, endpos=None):
    return _do(p, string, 'fullmatch', pos, endpos)


def pat_search(p, string, pos=0, endpos=None):
    return _do(p, string, 'search', pos, endpos)


def pat_sub(p, repl, string, count=0):
    return _sub(p, repl, string, count)
