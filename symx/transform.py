"""AST instrumentation and import hook.

Rewrites (see DESIGN.md 2.1):
  f(...)            -> _RT_.call(f, ...)
  o.m(...)          -> _RT_.callm(o, 'm', ...)
  o[i] (load)       -> _RT_.getitem(o, i)
  a in b / not in   -> _RT_.contains(b, a) / _RT_.not_contains(b, a)
  a % b             -> _RT_.mod(a, b)
  x if t else y     -> _RT_.ite(t, lambda: x, lambda: y)   (pure arms only)
Everything else (arithmetic, comparisons, truth tests, iteration, stores)
runs natively on the proxy values' own operator overloads.
"""
import ast
import importlib.abc
import importlib.machinery
import importlib.util
import hashlib
import os
import sys

RT = '_RT_'
_DIRECT = {'super', 'globals', 'locals', 'vars', 'eval', 'exec', 'dir',
           '__import__'}


def _rt(attr):
    return ast.Attribute(value=ast.Name(id=RT, ctx=ast.Load()), attr=attr,
                         ctx=ast.Load())


def _pure_arith(node):
    """Side-effect free, exception-free (modulo overflow) arithmetic?"""
    if isinstance(node, ast.Constant):
        return isinstance(node.value, (int, bool))
    if isinstance(node, ast.Name):
        return True
    if isinstance(node, ast.Attribute):
        return _pure_arith(node.value)
    if isinstance(node, ast.BinOp):
        return (isinstance(node.op, (ast.Add, ast.Sub, ast.Mult)) and
                _pure_arith(node.left) and _pure_arith(node.right))
    if isinstance(node, ast.UnaryOp):
        return isinstance(node.op, (ast.USub, ast.UAdd)) and \
            _pure_arith(node.operand)
    if isinstance(node, ast.Call):
        return (isinstance(node.func, ast.Name) and node.func.id == 'len' and
                len(node.args) == 1 and not node.keywords and
                _pure_arith(node.args[0]))
    return False


class Rewriter(ast.NodeTransformer):
    def visit_Call(self, node):
        self.generic_visit(node)
        f = node.func
        if isinstance(f, ast.Name) and f.id in _DIRECT:
            return node
        if isinstance(f, ast.Attribute) and isinstance(f.ctx, ast.Load):
            new = ast.Call(func=_rt('callm'),
                           args=[f.value, ast.Constant(value=f.attr)] +
                           node.args, keywords=node.keywords)
        else:
            new = ast.Call(func=_rt('call'), args=[f] + node.args,
                           keywords=node.keywords)
        return ast.copy_location(new, node)

    def _slice_expr(self, s):
        if isinstance(s, ast.Slice):
            none = ast.Constant(value=None)
            return ast.Call(func=ast.Name(id='slice', ctx=ast.Load()),
                            args=[s.lower or none, s.upper or none,
                                  s.step or none], keywords=[])
        if isinstance(s, ast.Tuple):
            return ast.Tuple(elts=[self._slice_expr(e) for e in s.elts],
                             ctx=ast.Load())
        return s

    def visit_Subscript(self, node):
        self.generic_visit(node)
        if isinstance(node.ctx, ast.Load):
            new = ast.Call(func=_rt('getitem'),
                           args=[node.value, self._slice_expr(node.slice)],
                           keywords=[])
            return ast.copy_location(new, node)
        return node

    def visit_Assign(self, node):
        self.generic_visit(node)
        # d[k] = v  ->  _RT_.setitem_v(v, d, k): a dictionary of the code
        # under test may receive a symbolic key
        if (len(node.targets) == 1 and
                isinstance(node.targets[0], ast.Subscript) and
                not isinstance(node.targets[0].slice, ast.Slice) and
                not (isinstance(node.targets[0].slice, ast.Tuple) and any(
                    isinstance(e, ast.Slice)
                    for e in node.targets[0].slice.elts))):
            t = node.targets[0]
            call = ast.Call(func=_rt('setitem_v'),
                            args=[node.value, t.value, t.slice], keywords=[])
            return ast.copy_location(ast.Expr(value=call), node)
        return node

    def visit_Compare(self, node):
        self.generic_visit(node)
        if len(node.ops) == 1 and isinstance(node.ops[0], (ast.In, ast.NotIn)):
            fn = 'contains' if isinstance(node.ops[0], ast.In) else \
                'not_contains'
            new = ast.Call(func=_rt(fn),
                           args=[node.comparators[0], node.left], keywords=[])
            return ast.copy_location(new, node)
        return node

    def visit_BinOp(self, node):
        self.generic_visit(node)
        if isinstance(node.op, ast.Mod):
            new = ast.Call(func=_rt('mod'), args=[node.left, node.right],
                           keywords=[])
            return ast.copy_location(new, node)
        return node

    def visit_IfExp(self, node):
        pure = _pure_arith(node.body) and _pure_arith(node.orelse)
        self.generic_visit(node)
        if pure:
            def lam(b):
                return ast.Lambda(
                    args=ast.arguments(posonlyargs=[], args=[], vararg=None,
                                       kwonlyargs=[], kw_defaults=[],
                                       kwarg=None, defaults=[]), body=b)
            new = ast.Call(func=_rt('ite'),
                           args=[node.test, lam(node.body), lam(node.orelse)],
                           keywords=[])
            return ast.copy_location(new, node)
        return node

    def visit_JoinedStr(self, node):
        # f'..{v:spec}..' -> _RT_.fstr('lit', (v, conv, spec_or_None), ...)
        self.generic_visit(node)
        parts = []
        for v in node.values:
            if isinstance(v, ast.Constant):
                parts.append(v)
            elif isinstance(v, ast.FormattedValue):
                spec = v.format_spec if v.format_spec is not None else \
                    ast.Constant(value=None)
                parts.append(ast.Tuple(elts=[
                    v.value, ast.Constant(value=v.conversion), spec],
                    ctx=ast.Load()))
            else:
                return node
        new = ast.Call(func=_rt('fstr'), args=parts, keywords=[])
        return ast.copy_location(new, node)

    def visit_Subscript_annotation(self, node):
        return node

    def visit_AnnAssign(self, node):
        # do not rewrite annotations
        if node.value is not None:
            node.value = self.visit(node.value)
        node.target = self.visit(node.target)
        return node

    def visit_arguments(self, node):
        # defaults are expressions; annotations are left alone
        node.defaults = [self.visit(d) for d in node.defaults]
        node.kw_defaults = [self.visit(d) if d is not None else None
                            for d in node.kw_defaults]
        return node

    def visit_FunctionDef(self, node):
        node.args = self.visit(node.args)
        node.body = [self.visit(s) for s in node.body]
        node.decorator_list = [self.visit(d) for d in node.decorator_list]
        return node

    visit_AsyncFunctionDef = visit_FunctionDef


class CovInserter(ast.NodeTransformer):
    """Development aid (SYMX_COV=dir): records which statements of the
    instrumented modules the harnesses execute (tools_cov.py reports the
    rest).  Not used by the registered checks."""

    def __init__(self, filename):
        self.filename = filename

    def _wrap(self, stmts):
        out = []
        for st in stmts:
            st = self.visit(st)
            probe = ast.Expr(value=ast.Call(
                func=_rt('cov'),
                args=[ast.Constant(value=self.filename),
                      ast.Constant(value=st.lineno)], keywords=[]))
            out.append(ast.copy_location(probe, st))
            out.append(st)
        return out

    def generic_visit(self, node):
        for field in ('body', 'orelse', 'finalbody'):
            v = getattr(node, field, None)
            if isinstance(v, list) and v and isinstance(v[0], ast.stmt):
                setattr(node, field, self._wrap(v))
        for h in getattr(node, 'handlers', []) or []:
            h.body = self._wrap(h.body)
        return node


def instrument_source(src, filename):
    tree = ast.parse(src, filename)
    tree = Rewriter().visit(tree)
    if os.environ.get('SYMX_COV') and '/pico8/' in filename:
        tree = CovInserter(filename).visit(tree)
    ast.fix_missing_locations(tree)
    return compile(tree, filename, 'exec', dont_inherit=True)


# ---------------------------------------------------------------------------
# import hook
# ---------------------------------------------------------------------------

ENCODED = {}     # module name -> (path, sha256)


class _Loader(importlib.abc.Loader):
    def __init__(self, fullname, path, is_pkg):
        self.fullname = fullname
        self.path = path
        self.is_pkg = is_pkg

    def create_module(self, spec):
        return None

    def exec_module(self, module):
        from . import rt
        with open(self.path, 'rb') as fh:
            data = fh.read()
        ENCODED[self.fullname] = (self.path, hashlib.sha256(data).hexdigest())
        code = instrument_source(data.decode('utf-8'), self.path)
        module.__dict__[RT] = rt
        exec(code, module.__dict__)

    def get_filename(self, fullname):
        return self.path

    def get_source(self, fullname):
        # so that inspect / tracebacks still work
        with open(self.path, 'r', encoding='utf-8') as fh:
            return fh.read()


class Finder(importlib.abc.MetaPathFinder):
    """Claims the packages in `roots` {top-level name: directory}."""

    def __init__(self, roots):
        self.roots = roots

    def find_spec(self, fullname, path=None, target=None):
        top = fullname.split('.')[0]
        if top not in self.roots:
            return None
        base = os.path.join(self.roots[top], *fullname.split('.'))
        if os.path.isdir(base) and os.path.isfile(
                os.path.join(base, '__init__.py')):
            p = os.path.join(base, '__init__.py')
            loader = _Loader(fullname, p, True)
            spec = importlib.util.spec_from_loader(fullname, loader,
                                                   origin=p, is_package=True)
            spec.submodule_search_locations = [base]
            spec.has_location = True
            return spec
        p = base + '.py'
        if os.path.isfile(p):
            loader = _Loader(fullname, p, False)
            spec = importlib.util.spec_from_loader(fullname, loader, origin=p)
            spec.has_location = True
            return spec
        return None


_installed = None


def install(roots):
    """Install the hook.  roots: {'pico8': '/repo', 'ref': '/verif', ...}
    mapping a top-level package to the directory that contains it."""
    global _installed
    sys.dont_write_bytecode = True
    if _installed is not None:
        _installed.roots.update(roots)
        return _installed
    f = Finder(dict(roots))
    sys.meta_path.insert(0, f)
    _installed = f
    return f
