#!/usr/bin/env python3
"""Development aid: statement coverage of /repo/pico8 by the quick harnesses.
  SYMX_COV=/tmp/cov ./check Cnn --no-evidence   (for each id)
  python3 tools_cov.py /tmp/cov [file substring]
prints, per module, the statements no harness executed."""
import ast, glob, os, sys
d = sys.argv[1]
only = sys.argv[2] if len(sys.argv) > 2 else ''
hit = set()
for f in glob.glob(os.path.join(d, '*.txt')):
    for l in open(f):
        fn, n = l.rsplit(':', 1)
        hit.add((fn, int(n)))
files = sorted(set(f for f, _ in hit))
for root, _, names in os.walk('/repo/pico8'):
    for n in names:
        p = os.path.join(root, n)
        if n.endswith('.py') and not n.endswith('_test.py') and p not in files:
            files.append(p)
for fn in sorted(files):
    if only not in fn or '/demos/' in fn:
        continue
    tree = ast.parse(open(fn).read())
    stmts = set()
    for node in ast.walk(tree):
        for field in ('body', 'orelse', 'finalbody'):
            v = getattr(node, field, None)
            if isinstance(v, list):
                for st in v:
                    if isinstance(st, ast.stmt):
                        stmts.add(st.lineno)
        for h in getattr(node, 'handlers', []) or []:
            for st in h.body:
                stmts.add(st.lineno)
    missed = sorted(n for n in stmts if (fn, n) not in hit)
    print('%s: %d/%d statements executed' % (fn, len(stmts) - len(missed), len(stmts)))
    if only:
        src = open(fn).read().split('\n')
        for n in missed:
            print('   %5d  %s' % (n, src[n - 1][:110]))
