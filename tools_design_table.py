#!/usr/bin/env python3
"""Regenerates the seeded-change table (section 9.7) of DESIGN.md from
seeded/*/meta.json; the 'strengthened' notes live in seeded/STRENGTHENED.json."""
import json, glob, os, re
HERE = os.path.dirname(os.path.abspath(__file__))
notes = json.load(open(os.path.join(HERE, 'seeded', 'STRENGTHENED.json')))
rows = []
for f in sorted(glob.glob(os.path.join(HERE, 'seeded', '*', 'meta.json'))):
    m = json.load(open(f))
    rows.append((os.path.basename(os.path.dirname(f)), m['caught_by'], m['needs_to_manifest']))
missed = [r for r in rows if r[0] in notes]
out = ['<!-- SEEDED-TABLE-BEGIN -->',
       '### 9.7 Seeded changes and the checks that catch them\n',
       'Each change was written by a fresh sub-agent that saw only the property text (and, in the second round, a list of '
       'ideas already used, to push it towards other mechanisms) and its own worktree; nothing from /verif. I confirmed each '
       '(278 tests pass with it, its demonstration fails with it and passes without) in a scratch worktree and ran the quick '
       'checks against it in a scratch copy (`tools_seed_confirm.py`, `tools_seed_eval.sh`). **%d changes, all caught by '
       'the quick tier as committed; %d were missed at first** and led to the strengthening noted in the last column '
       '(names with a `b` are from the second round).\n' % (len(rows), len(missed)),
       '| change | needs, in order to manifest | caught by | check strengthened because of it |', '|---|---|---|---|']
for n, c, needs in rows:
    out.append('| %s | %s | %s | %s |' % (n, needs.replace('|', '/'), ', '.join(c), notes.get(n, '')))
out.append('<!-- SEEDED-TABLE-END -->')
p = os.path.join(HERE, 'DESIGN.md')
s = open(p).read()
block = '\n'.join(out)
if '<!-- SEEDED-TABLE-BEGIN -->' in s:
    s = re.sub(r'<!-- SEEDED-TABLE-BEGIN -->.*?<!-- SEEDED-TABLE-END -->', lambda m: block, s, flags=re.S)
else:
    a = s.index('### 9.7 Seeded changes and the checks that catch them')
    b = s.index('\nThe sub-agents also reported', a)
    s = s[:a] + block + '\n' + s[b:]
open(p, 'w').write(s)
print(len(rows), 'rows,', len(missed), 'initially missed')


# --- 9.2: cost table from the committed evidence files ----------------------
s = open(p).read()
rows2 = []
for f in sorted(glob.glob(os.path.join(HERE, 'evidence', 'C*.json'))):
    e = json.load(open(f))
    c = e['coverage']
    hs = []
    for b in c['bounds']:
        if b['harness'] not in hs:
            hs.append(b['harness'])
    counts = dict((h, sum(1 for b in c['bounds'] if b['harness'] == h)) for h in hs)
    rows2.append('| %s | %s | %s | %s | %s | %s | %.0f s | %.0f s |' % (
        e['property_id'], e['tier'],
        ', '.join('%s x%d' % (h, counts[h]) if counts[h] > 1 else h for h in hs),
        format(c['states'], ','), format(c['transitions'], ','),
        format(c['queries'], ','), c['solver_s'], e['wall_s']))
block2 = '\n'.join(['<!-- COST-TABLE-BEGIN -->',
    '| id | tier of the committed evidence | harnesses (x parameter sets) | leaves (paths) | decisions | solver queries | solver time | wall |',
    '|---|---|---|---|---|---|---|---|'] + rows2 + ['<!-- COST-TABLE-END -->'])
if '<!-- COST-TABLE-BEGIN -->' in s:
    s = re.sub(r'<!-- COST-TABLE-BEGIN -->.*?<!-- COST-TABLE-END -->', lambda m: block2, s, flags=re.S)
else:
    a = s.index('| id | harnesses | leaves | wall |')
    b = s.index('\nThorough bounds are in each', a)
    s = s[:a] + block2 + '\n' + s[b:]
open(p, 'w').write(s)
print(len(rows2), 'cost rows')
