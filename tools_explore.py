#!/usr/bin/env python3
"""Dev tool: explore one harness/param set, list *all* violations found."""
import os, sys, json, importlib
os.environ.setdefault('PYTHONHASHSEED', '0')
sys.path.insert(0, os.path.dirname(os.path.abspath(__file__)))
from symx import transform, explore
transform.install({'pico8': os.environ.get('SYMX_REPO', '/repo'), 'props': '/verif', 'ref': '/verif'})
modname, hname, params = sys.argv[1], sys.argv[2], json.loads(sys.argv[3])
budget = float(sys.argv[4]) if len(sys.argv) > 4 else 600
mod = importlib.import_module(modname)
h = [x for x in mod.HARNESSES if x.name == hname][0]
prop = modname.split('.')[-1]
s = explore.explore(modname, h, params, prop, budget, 16, stop_on_violation=False)
print('leaves', s['leaves'], 'dec', s['decisions'], 'checks', s['checks'], 'solver %.1f' % s['solver_s'],
      'wall %.1f' % s['wall'], 'complete', s['complete'], 'validated', s['validated'])
print('tags', s['tags'])
print('limits', s['limits'][:3], 'errors', s['errors'][:2], 'div', s['divergences'][:2])
print('known', {k: len(v) for k, v in s['known'].items()})
for v in s['violations'][:40]:
    inp = {k: (bytes(x) if isinstance(x, list) and all(isinstance(y, int) and 0 <= y < 256 for y in x) else x)
           for k, x in v['inputs'].items()}
    print('VIOL', v['check'], v['info'], inp)
print('violations', len(s['violations']))
