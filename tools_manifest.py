#!/usr/bin/env python3
"""Regenerates MANIFEST.json from the per-property table below."""
import json, os
HERE = os.path.dirname(os.path.abspath(__file__))
TECH = ('symbolic execution of the real /repo Python source (AST-instrumented, '
        'z3 bit-vector/array proxies), exhaustive path exploration within '
        'stated bounds, closing queries decided by z3 (unsat = holds), '
        'counterexamples replayed on the un-instrumented code')
CLAIMS = {}
NA = {}
exec(open(os.path.join(HERE, 'claims.py')).read())
props = [json.loads(l) for l in open(os.path.join(HERE, 'properties.jsonl'))]
checks = []
for p in props:
    pid = p['id']
    if pid in CLAIMS:
        c = CLAIMS[pid]
        checks.append({
            'property_id': pid,
            'quick_cmd': './check %s --tier quick' % pid,
            'thorough_cmd': './check %s --tier thorough' % pid,
            'evidence_file': 'evidence/%s.json' % pid,
            'replay_cmd_template': './check %s --replay {path}' % pid,
            'engine': 'symx',
            'level_claimed': {'category': 'model_checking',
                              'text': c['text'],
                              'design_ref': 'DESIGN.md section 4 ' + pid},
            'level_note': c['note'],
            'technique': c.get('technique', TECH)})
na = [{'property_id': p['id'], 'reason': NA.get(p['id'],
       'check not yet built in this round (solver-based harness planned in DESIGN.md section 4)')}
      for p in props if p['id'] not in CLAIMS]
man = {
    'version': 1,
    'setup_cmd': 'sh ./setup.sh',
    'hooks': {'guard': 'PICOTOOL_VERIF',
              'enable': 'none needed: checks instrument /repo/pico8 at import time through their own import hook (symx.transform); no source hooks exist',
              'baseline_off_cmd': 'cd /repo && /venv/bin/python -m pytest -ra -q -p no:cacheprovider --timeout=900 --continue-on-collection-errors',
              'source_commits': [], 'add_only': True},
    'engines': [{'name': 'symx', 'path': 'symx/',
                 'serves_properties': sorted(CLAIMS),
                 'kind_free_text': 'bounded symbolic execution of Python via AST instrumentation + z3 (QF_BV / QF_AUFBV), DFS by re-execution on 16 processes, native replay of every witness'}],
    'checks': checks,
    'not_applicable': na,
    'notes': 'Exit codes: 0 holds within bounds; 1 replay-confirmed violation; 3 inconclusive (engine limit / budget / divergence). Genuine defects repaired in /repo are listed under "fixed" in known_findings.json.'}
json.dump(man, open(os.path.join(HERE, 'MANIFEST.json'), 'w'), indent=1)
print('claimed:', sorted(CLAIMS), 'not claimed:', [n['property_id'] for n in na])
