#!/usr/bin/env python3
"""Debug: explore one harness sequentially in-process, printing each leaf."""
import sys, os, json, time, importlib, faulthandler
if os.environ.get("SYMX_HANG"): faulthandler.dump_traceback_later(int(os.environ["SYMX_HANG"]), exit=True)
os.environ.setdefault('PYTHONHASHSEED', '0')
sys.path.insert(0, os.path.dirname(os.path.abspath(__file__)))
from symx import transform, explore, core
transform.install({'pico8': os.environ.get('SYMX_REPO', '/repo'), 'props': '/verif', 'ref': '/verif'})
modname, hname, params = sys.argv[1], sys.argv[2], json.loads(sys.argv[3])
maxleaves = int(sys.argv[4]) if len(sys.argv) > 4 else 50
mod = importlib.import_module(modname)
h = [x for x in mod.HARNESSES if x.name == hname][0]
prop = modname.split('.')[-1]
stack = [[]]
n = 0
while stack and n < maxleaves:
    pre = stack.pop()
    t = time.time()
    leaf, pending = explore.run_path(modname, h, params, pre, prop, explore.load_known(prop), 0, True)
    stack.extend(pending)
    n += 1
    print('leaf %d: %s dec=%d %.2fs solver=%.2fs checks=%d tags=%s viol=%s detail=%s' % (
        n, leaf['status'], leaf['decisions'], time.time() - t, leaf['stats']['solver_s'],
        leaf['stats']['checks'], leaf['tags'], [(v['check'], v['info']) for v in leaf['violations']][:2],
        (leaf['detail'] or '')[:1500]), flush=True)
    if os.environ.get('SYMX_TRACE_FORKS'):
        for k, v in sorted(leaf['fork_sites'].items(), key=lambda kv: -kv[1])[:int(os.environ.get("SYMX_TOP","8"))]:
            print('    fork x%d %s' % (v, k))
print('open prefixes:', len(stack))
