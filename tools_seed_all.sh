#!/bin/sh
# Re-runs every filed seeded change against the checks recorded as catching
# it (scratch copy per change); prints one line per change.
cd /verif
for d in seeded/*/; do
  n=$(basename "$d")
  checks=$(python3 -c "import json;m=json.load(open('$d/meta.json'));print(' '.join(m['caught_by'] or m['checks_run']))")
  out=$(./tools_seed_eval.sh "/verif/${d}patch.diff" $checks 2>&1 | grep '^==' | tr '\n' ' ')
  echo "$n: $out"
done
