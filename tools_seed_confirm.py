#!/usr/bin/env python3
"""Confirm a seeded change delivered by a sub-agent and file it under
/verif/seeded/<name>/:  tools_seed_confirm.py <Cnn> <k> "<needs>" <checks...>
- fresh scratch worktree of /repo HEAD under /tmp
- with the diff applied: the 278 repository tests pass, the demo exits 1
- without it: the demo exits 0
- then runs the named checks against the change (scratch copy, SYMX_REPO)"""
import json, os, shutil, subprocess, sys, tempfile
cid, k, needs = sys.argv[1], sys.argv[2], sys.argv[3]
prop = cid[:3]
checks = sys.argv[4:] or [prop]
src = '/tmp/seed/%s_out' % cid
diff = os.path.join(src, 'mut%s.diff' % k)
demo = os.path.join(src, 'mut%s_demo.py' % k)
notes = os.path.join(src, 'mut%s_notes.txt' % k)
wt = tempfile.mkdtemp(prefix='confirm_', dir='/tmp')
os.rmdir(wt)
def run(cmd, cwd=None, **kw):
    return subprocess.run(cmd, cwd=cwd, shell=isinstance(cmd, str), capture_output=True, text=True, **kw)
res = {}
try:
    r = run(['git', '-C', '/repo', 'worktree', 'add', '-q', '--detach', wt, 'HEAD']); assert r.returncode == 0, r.stderr
    r = run(['git', '-C', wt, 'apply', diff]); assert r.returncode == 0, 'apply failed: ' + r.stderr
    t = run('/venv/bin/python -m pytest -q -p no:cacheprovider 2>&1 | tail -1', cwd=wt)
    res['tests_with_change'] = t.stdout.strip()
    env = dict(os.environ, PYTHONPATH=wt)
    d1 = run(['/venv/bin/python', demo], cwd=wt, timeout=600, env=env)
    res['demo_with_change_rc'] = d1.returncode
    run(['git', '-C', wt, 'checkout', '--', '.'])
    d0 = run(['/venv/bin/python', demo], cwd=wt, timeout=600, env=env)
    res['demo_without_change_rc'] = d0.returncode
finally:
    run(['git', '-C', '/repo', 'worktree', 'remove', '--force', wt])
    shutil.rmtree(wt, ignore_errors=True)
ok = ('278 passed' in res.get('tests_with_change', '') and res.get('demo_with_change_rc') == 1 and res.get('demo_without_change_rc') == 0)
print(cid, k, 'confirmed' if ok else 'NOT CONFIRMED', res)
if not ok:
    sys.exit(1)
ev = subprocess.run(['/verif/tools_seed_eval.sh', diff] + checks, capture_output=True, text=True)
print(ev.stdout)
caught = [c for c in checks if ('== %s rc=1' % c) in ev.stdout and ('== %s rc=1 0 violation' % c) not in ev.stdout]
out = '/verif/seeded/%s-%s%s' % (prop, cid[3:], k)
os.makedirs(out, exist_ok=True)
shutil.copy(diff, os.path.join(out, 'patch.diff'))
shutil.copy(demo, os.path.join(out, 'demo.py'))
meta = {'property': prop, 'needs_to_manifest': needs,
        'agent_notes': open(notes).read() if os.path.exists(notes) else '',
        'confirmed': res,
        'ran': ['git worktree add (scratch) + git apply patch.diff', '/venv/bin/python -m pytest -q -p no:cacheprovider (278 passed)',
                'demo.py: exit 1 with the change, exit 0 without', 'tools_seed_eval.sh patch.diff ' + ' '.join(checks)],
        'checks_run': checks, 'caught_by': caught,
        'eval_output': ev.stdout[-1500:]}
json.dump(meta, open(os.path.join(out, 'meta.json'), 'w'), indent=1)
print('filed', out, 'caught_by', caught)
