#!/bin/sh
# Usage: tools_seed_eval.sh <diff> <check id> [more ids...]
# Applies a seeded change to a scratch copy of /repo (under /tmp) and runs
# the given quick checks against it via SYMX_REPO; removes the copy.
DIFF="$1"; shift
D=$(mktemp -d /tmp/seedeval.XXXXXX)
mkdir -p "$D/tests"
cp -r /repo/pico8 "$D/pico8"
cp -r /repo/tests/testdata "$D/tests/testdata"
( cd "$D" && patch -s -p1 < "$DIFF" ) || { echo "patch failed"; rm -rf "$D"; exit 2; }
for c in "$@"; do
  SYMX_REPO="$D" timeout 1800 /verif/check "$c" --no-evidence ${SEED_TIER:+--tier $SEED_TIER} > "$D/out.$c" 2>&1
  rc=$?
  echo "== $c rc=$rc $(grep -c '^VIOLATION' "$D/out.$c") violation(s)"
  grep -E "^VIOLATION|harness=|^INCONCLUSIVE|^HARNESS" "$D/out.$c" | head -4 | cut -c1-260
done
rm -rf "$D"
