#!/usr/bin/env python3
"""Seeded patches are diffs against the /repo commit they were written on.
After a fix: commit in /repo some no longer apply.  For each filed change
whose patch.diff does not apply to /repo HEAD this tool tries a three-way
merge (git apply --3way) in a scratch worktree, and if that works and the
change still behaves as filed (278 tests pass with it, its demo fails with it
and passes without) rewrites patch.diff against HEAD and notes it in
meta.json.  Prints what it could not rebase."""
import glob, json, os, shutil, subprocess, sys, tempfile
HERE = os.path.dirname(os.path.abspath(__file__))


def run(cmd, cwd=None, **kw):
    return subprocess.run(cmd, cwd=cwd, shell=isinstance(cmd, str),
                          capture_output=True, text=True, **kw)


head = run(['git', '-C', '/repo', 'rev-parse', '--short', 'HEAD']).stdout.strip()
names = sys.argv[1:]
for d in sorted(glob.glob(os.path.join(HERE, 'seeded', '*', 'patch.diff'))):
    name = os.path.basename(os.path.dirname(d))
    if names and name not in names:
        continue
    if run(['git', '-C', '/repo', 'apply', '--check', d]).returncode == 0:
        continue
    wt = tempfile.mkdtemp(prefix='rebase_', dir='/tmp')
    os.rmdir(wt)
    try:
        r = run(['git', '-C', '/repo', 'worktree', 'add', '-q', '--detach', wt, 'HEAD'])
        assert r.returncode == 0, r.stderr
        r = run(['git', '-C', wt, 'apply', '--3way', d])
        if r.returncode != 0 or 'with conflicts' in (r.stdout + r.stderr):
            print(name, 'NOT REBASED (conflict):', (r.stderr or r.stdout).strip().splitlines()[-1][:150])
            continue
        run(['git', '-C', wt, 'reset', '-q'])
        new = run(['git', '-C', wt, 'diff']).stdout
        t = run('/venv/bin/python -m pytest -q -p no:cacheprovider 2>&1 | tail -1', cwd=wt).stdout.strip()
        demo = os.path.join(os.path.dirname(d), 'demo.py')
        env = dict(os.environ, PYTHONPATH=wt)
        d1 = run(['/venv/bin/python', demo], cwd=wt, timeout=900, env=env).returncode
        run(['git', '-C', wt, 'checkout', '--', '.'])
        d0 = run(['/venv/bin/python', demo], cwd=wt, timeout=900, env=env).returncode
        if '278 passed' in t and d1 == 1 and d0 == 0:
            open(d, 'w').write(new)
            mf = os.path.join(os.path.dirname(d), 'meta.json')
            m = json.load(open(mf))
            m['rebased_on'] = head
            json.dump(m, open(mf, 'w'), indent=1)
            print(name, 'rebased on', head)
        else:
            print(name, 'NOT REBASED (behaviour): tests=%r demo with=%d without=%d' % (t, d1, d0))
    finally:
        run(['git', '-C', '/repo', 'worktree', 'remove', '--force', wt])
        shutil.rmtree(wt, ignore_errors=True)
