#!/usr/bin/env python3
"""Re-evaluates filed seeded changes whose meta.json lists no catching check
(or all, with --all) against the current checks and updates caught_by /
eval_output.  tools_seed_refresh.py [--all] [name ...]"""
import glob, json, os, subprocess, sys
HERE = os.path.dirname(os.path.abspath(__file__))
args = [a for a in sys.argv[1:] if not a.startswith('--')]
every = '--all' in sys.argv
for f in sorted(glob.glob(os.path.join(HERE, 'seeded', '*', 'meta.json'))):
    name = os.path.basename(os.path.dirname(f))
    m = json.load(open(f))
    if args and name not in args:
        continue
    if not args and not every and m['caught_by']:
        continue
    checks = m['checks_run']
    ev = subprocess.run([os.path.join(HERE, 'tools_seed_eval.sh'),
                         os.path.join(os.path.dirname(f), 'patch.diff')] + checks,
                        capture_output=True, text=True)
    caught = [c for c in checks if ('== %s rc=1' % c) in ev.stdout and ('== %s rc=1 0 violation' % c) not in ev.stdout]
    m['caught_by'] = caught
    m['eval_output'] = ev.stdout[-1500:]
    json.dump(m, open(f, 'w'), indent=1)
    print(name, 'caught_by', caught, flush=True)
